// vcheck: orchestrator of the go-upf simulation checks (DESIGN.md §6).
//
//	vcheck build [--race]
//	vcheck run <property> [--tier quick|thorough] [--runs N] [--secs S]
//	vcheck replay <file>
//	vcheck determinism <property> [--seeds N]
//
// Exit codes: 0 property held on everything explored (known findings are printed as
// KNOWN-FINDING lines), 1 with a "VIOLATION property=<id> replay=<path>" line, 2 for
// build / harness / watchdog trouble (never a verdict).
package main

import (
	"bufio"
	"bytes"
	"crypto/sha256"
	"encoding/json"
	"fmt"
	"os"
	"os/exec"
	"path/filepath"
	"regexp"
	"runtime"
	"sort"
	"strconv"
	"strings"
	"sync"
	"time"
)

const goBin = "go1.26.8"

// verifDir / repoDir: /verif and /repo unless overridden (background runs from a
// snapshot use VERIF_DIR=<snapshot> VERIF_REPO=<repo snapshot>).
var (
	verifDir = envOr("VERIF_DIR", "/verif")
	repoDir  = envOr("VERIF_REPO", "/repo")
	buildDir = filepath.Join(verifDir, ".build")
)

func envOr(k, d string) string {
	if v := os.Getenv(k); v != "" {
		return v
	}
	return d
}

type Violation struct {
	Property  string `json:"property"`
	Invariant string `json:"invariant"`
	Signature string `json:"signature"`
	Detail    string `json:"detail"`
	Step      int    `json:"step"`
}

type RunResult struct {
	Config      json.RawMessage   `json:"config"`
	Actions     []json.RawMessage `json:"actions"`
	Violation   *Violation        `json:"violation,omitempty"`
	Harness     string            `json:"harness_error,omitempty"`
	EventHash   string            `json:"event_hash"`
	ActionsHash string            `json:"actions_hash"`
	StateHash   string            `json:"state_hash"`
	Steps       int               `json:"steps"`
	SimTimeMs   int64             `json:"sim_time_ms"`
	Fired       map[string]int    `json:"fired"`
	Probes      map[string]int    `json:"probes"`
	NonTrivial  bool              `json:"nontrivial"`
	States      []string          `json:"states,omitempty"`
	Sample      json.RawMessage   `json:"sample,omitempty"`
	Trace       []string          `json:"trace,omitempty"`
	Seed        uint64            `json:"-"`
}

type ReplayFile struct {
	Property  string            `json:"property"`
	Invariant string            `json:"invariant"`
	Signature string            `json:"signature"`
	Detail    string            `json:"detail"`
	Config    json.RawMessage   `json:"config"`
	Actions   []json.RawMessage `json:"actions"`
	TreeHash  string            `json:"tree_hash"`
	OrigLen   int               `json:"actions_before_minimisation"`
	MinLen    int               `json:"actions_after_minimisation"`
	Crash     bool              `json:"process_crash,omitempty"`
}

type KnownFinding struct {
	Property    string `json:"property"`
	ID          string `json:"id"`
	Status      string `json:"status"` // known | fixed
	Signature   string `json:"signature"`
	Witness     string `json:"witness"`
	Commit      string `json:"commit,omitempty"`
	Description string `json:"description"`
}

func env() []string {
	e := os.Environ()
	e = append(e, "GOFLAGS=-mod=mod", "GOPROXY=off", "GOSUMDB=off", "GOTOOLCHAIN=local")
	// scratch files of the simulated runs (C20 configuration files) stay out of /tmp
	tmp := filepath.Join(buildDir, "tmp")
	os.MkdirAll(tmp, 0o755)
	e = append(e, "VERIF_TMP="+tmp)
	return e
}

func fail2(f string, a ...any) {
	fmt.Fprintf(os.Stderr, "vcheck: "+f+"\n", a...)
	os.Exit(2)
}

// ---- build -------------------------------------------------------------------------------

func build(race bool) string {
	if err := os.MkdirAll(buildDir, 0o755); err != nil {
		fail2("%v", err)
	}
	seamgen := filepath.Join(verifDir, "bin", "seamgen")
	if _, err := os.Stat(seamgen); err != nil {
		c := exec.Command(goBin, "build", "-o", seamgen, "./tools/seamgen")
		c.Dir = verifDir
		c.Env = env()
		if out, err := c.CombinedOutput(); err != nil {
			fail2("building seamgen: %v\n%s", err, out)
		}
	}
	c := exec.Command(seamgen, "-q", "-repo", repoDir, "-verif", verifDir, "-out", buildDir)
	c.Env = env()
	if out, err := c.CombinedOutput(); err != nil {
		fail2("seamgen: %v\n%s", err, out)
	}
	bin := filepath.Join(buildDir, "sim.test")
	args := []string{"test", "-c", "-tags", "verif", "-vet=off",
		"-overlay", filepath.Join(buildDir, "overlay.json"), "-modfile", filepath.Join(buildDir, "go.mod")}
	if race {
		bin = filepath.Join(buildDir, "sim.race.test")
		args = append(args, "-race")
	}
	args = append(args, "-o", bin, "./internal/verifsim")
	c = exec.Command(goBin, args...)
	c.Dir = repoDir
	c.Env = env()
	if out, err := c.CombinedOutput(); err != nil {
		fail2("building the simulator against the working tree failed (not a verdict):\n%s", out)
	}
	return bin
}

func treeHash() string {
	c := exec.Command("sh", "-c", "cd "+repoDir+" && (git rev-parse HEAD; git diff HEAD) | sha256sum | cut -c1-16")
	out, _ := c.Output()
	return strings.TrimSpace(string(out))
}

// ---- running workers ---------------------------------------------------------------------

type chunk struct {
	first uint64
	count int
}

type workerOut struct {
	results []*RunResult
	crashes []*RunResult
}

var reBegin = regexp.MustCompile(`^BEGIN (\d+)$`)
var reEnd = regexp.MustCompile(`^END (\d+)$`)

// runChunk runs seeds [first, first+count) in one process; a process that dies is
// attributed to the seed in flight and the rest of the chunk is run in a new process.
// a chunk normally takes seconds (quick tier: 100 runs) to a minute or two (thorough: 400
// runs, C15/C17 slower); a run that spins is killed by the test binary's own time-out and
// attributed to its seed, a process that does not even do that by the watchdog (exit 2)
var (
	chunkTestTimeout = "20m"
	chunkWatchdog    = 25 * time.Minute
)

// exploreDeadline: end of the exploration phase of the current check (zero outside it).
// spinSecs: real seconds without quiescence after which the simulator's own watchdog reports
// a CPU-bound go-upf goroutine (see sim/verifsim/main_test.go).
var (
	exploreDeadline time.Time
	spinSecs        = 40
)

func runChunk(bin, profile string, ck chunk, gomaxprocs int, extra ...string) workerOut {
	var wo workerOut
	first, count := ck.first, ck.count
	for count > 0 {
		if len(wo.crashes) > 0 && !exploreDeadline.IsZero() && time.Now().After(exploreDeadline) {
			// a crashing (or spinning: 40-150 s of real time each) tree must not keep the
			// exploration going long after its time is up: the rest of the chunk is dropped
			break
		}
		args := []string{"-test.run", "^TestSim$", "-test.timeout", chunkTestTimeout,
			"-sim.profile", profile, "-sim.seed", fmt.Sprint(first), "-sim.count", fmt.Sprint(count), "-sim.spinsecs", fmt.Sprint(spinSecs)}
		args = append(args, extra...)
		cmd := exec.Command(bin, args...)
		cmd.Env = append(env(), fmt.Sprintf("GOMAXPROCS=%d", gomaxprocs), "GODEBUG=asynctimerchan=0", "GORACE=halt_on_error=1")
		var stdout, stderr bytes.Buffer
		cmd.Stdout = &stdout
		cmd.Stderr = &stderr
		done := make(chan error, 1)
		if err := cmd.Start(); err != nil {
			fail2("cannot start worker: %v", err)
		}
		go func() { done <- cmd.Wait() }()
		var werr error
		timedOut := false
		select {
		case werr = <-done:
		case <-time.After(chunkWatchdog):
			cmd.Process.Kill()
			<-done
			timedOut = true
		}
		inflight := uint64(0)
		have := false
		lastEnd := first - 1
		sc := bufio.NewScanner(&stdout)
		sc.Buffer(make([]byte, 1<<20), 1<<28)
		for sc.Scan() {
			line := sc.Text()
			if m := reBegin.FindStringSubmatch(line); m != nil {
				inflight, _ = strconv.ParseUint(m[1], 10, 64)
				have = true
				continue
			}
			if m := reEnd.FindStringSubmatch(line); m != nil {
				v, _ := strconv.ParseUint(m[1], 10, 64)
				lastEnd = v
				have = false
				continue
			}
			if strings.HasPrefix(line, "{") {
				var r RunResult
				if err := json.Unmarshal([]byte(line), &r); err == nil {
					r.Seed = inflight
					wo.results = append(wo.results, &r)
				}
			}
		}
		if timedOut {
			fail2("watchdog: worker for profile %s seeds %d.. did not finish in %v (real time)", profile, first, chunkWatchdog)
		}
		if werr == nil && !have {
			return wo
		}
		if !have {
			// the process failed outside a run (e.g. test framework): harness trouble
			fail2("worker failed outside a run: %v\n%s\n%s", werr, tail(stdout.String(), 2000), tail(stderr.String(), 4000))
		}
		// crashed inside seed `inflight`
		msg := stderr.String() + "\n" + tail(stdout.String(), 6000)
		cr := &RunResult{Seed: inflight, Violation: &Violation{
			Property: profile, Invariant: "process.alive", Signature: "panic:" + crashSignature(msg), Detail: tail(msg, 6000)}}
		wo.crashes = append(wo.crashes, cr)
		done2 := int(inflight-first) + 1
		first += uint64(done2)
		count -= done2
		_ = lastEnd
	}
	return wo
}

func tail(s string, n int) string {
	if len(s) <= n {
		return s
	}
	return s[len(s)-n:]
}

var reDigits = regexp.MustCompile(`[0-9]+`)

// crashSignature: panic value (numbers masked) + first go-upf / go-nl frame.
func crashSignature(out string) string {
	lines := strings.Split(out, "\n")
	kind := ""
	for _, l := range lines {
		if strings.HasPrefix(l, "panic: ") || strings.HasPrefix(l, "fatal error: ") {
			kind = l
			break
		}
		if strings.Contains(l, "WARNING: DATA RACE") {
			kind = "DATA RACE"
			break
		}
	}
	if kind == "" {
		kind = "exit"
	}
	kind = reDigits.ReplaceAllString(kind, "N")
	if len(kind) > 120 {
		kind = kind[:120]
	}
	frame := func(l string) (string, bool) {
		l = strings.TrimSpace(l)
		if !strings.Contains(l, "free5gc/go-upf/internal/") && !strings.Contains(l, "khirono/go-nl.") {
			return "", false
		}
		if strings.Contains(l, "/verifsim.") || strings.HasPrefix(l, "/") || strings.Contains(l, ".go:") {
			return "", false
		}
		if i := strings.LastIndex(l, "("); i > 0 {
			l = l[:i]
		}
		return l[strings.LastIndex(l, "/")+1:], true
	}
	if kind == "DATA RACE" {
		// which of the two accesses the detector sees second is up to the Go runtime, so the
		// signature names both sides (innermost go-upf frame of each), in sorted order
		var sides []string
		inBlock, taken := false, false
		for _, l := range lines {
			t := strings.TrimSpace(l)
			switch {
			case strings.HasPrefix(t, "Read at ") || strings.HasPrefix(t, "Write at ") ||
				strings.HasPrefix(t, "Previous read at ") || strings.HasPrefix(t, "Previous write at ") ||
				strings.HasPrefix(t, "Atomic ") || strings.HasPrefix(t, "Previous atomic "):
				inBlock, taken = true, false
			case t == "":
				if inBlock && !taken {
					sides = append(sides, "?")
				}
				inBlock = false
			case strings.HasPrefix(t, "Goroutine "):
				inBlock = false
			case inBlock && !taken:
				if f, ok := frame(l); ok {
					sides = append(sides, f)
					taken = true
				}
			}
			if len(sides) == 2 {
				break
			}
		}
		sort.Strings(sides)
		return kind + " @ " + strings.Join(sides, " <> ")
	}
	var frames []string
	for _, l := range lines {
		f, ok := frame(l)
		if !ok {
			continue
		}
		frames = append(frames, f)
		if len(frames) == 2 {
			break
		}
	}
	return kind + " @ " + strings.Join(frames, " < ")
}

// ---- replay ------------------------------------------------------------------------------

// replayOnce runs a replay file in a fresh process and returns the violation it produced.
func replayOnce(bin string, file string, gomaxprocs int) (*Violation, string, error) {
	cmd := exec.Command(bin, "-test.run", "^TestSim$", "-test.timeout", "10m", "-sim.replay", file, "-sim.spinsecs", fmt.Sprint(spinSecs))
	cmd.Env = append(env(), fmt.Sprintf("GOMAXPROCS=%d", gomaxprocs), "GODEBUG=asynctimerchan=0", "GORACE=halt_on_error=1")
	var stdout, stderr bytes.Buffer
	cmd.Stdout = &stdout
	cmd.Stderr = &stderr
	done := make(chan error, 1)
	if err := cmd.Start(); err != nil {
		return nil, "", err
	}
	go func() { done <- cmd.Wait() }()
	var werr error
	select {
	case werr = <-done:
	case <-time.After(5 * time.Minute):
		cmd.Process.Kill()
		<-done
		return nil, "", fmt.Errorf("replay timed out")
	}
	var last *RunResult
	ended := false
	sc := bufio.NewScanner(&stdout)
	sc.Buffer(make([]byte, 1<<20), 1<<28)
	for sc.Scan() {
		line := sc.Text()
		if strings.HasPrefix(line, "END ") {
			ended = true
		}
		if strings.HasPrefix(line, "{") {
			var r RunResult
			if json.Unmarshal([]byte(line), &r) == nil {
				last = &r
			}
		}
	}
	if last != nil && ended {
		if last.Harness != "" {
			return nil, last.EventHash, fmt.Errorf("harness: %s", last.Harness)
		}
		return last.Violation, last.EventHash, nil
	}
	if werr != nil {
		var rf ReplayFile
		b, _ := os.ReadFile(file)
		json.Unmarshal(b, &rf)
		msg := stderr.String() + "\n" + tail(stdout.String(), 6000)
		return &Violation{Property: rf.Property, Invariant: "process.alive", Signature: "panic:" + crashSignature(msg), Detail: tail(msg, 6000)}, "", nil
	}
	return nil, "", fmt.Errorf("replay produced no result")
}

func writeReplay(path string, rf *ReplayFile) {
	os.MkdirAll(filepath.Dir(path), 0o755)
	b, _ := json.MarshalIndent(rf, "", " ")
	os.WriteFile(path, b, 0o644)
}

// getActions obtains the explicit action list of a seed by re-running it verbosely. The
// simulator streams "CFG" and "ACT" lines before executing each action, so the list is
// available even when the process dies.
func getActions(bin, profile string, seed uint64, gomaxprocs int) (*RunResult, bool) {
	cmd := exec.Command(bin, "-test.run", "^TestSim$", "-test.timeout", "20m", "-sim.profile", profile,
		"-sim.seed", fmt.Sprint(seed), "-sim.count", "1", "-sim.v")
	cmd.Env = append(env(), fmt.Sprintf("GOMAXPROCS=%d", gomaxprocs), "GODEBUG=asynctimerchan=0", "GORACE=halt_on_error=1")
	var stdout bytes.Buffer
	cmd.Stdout = &stdout
	cmd.Run()
	r := &RunResult{Seed: seed}
	complete := false
	sc := bufio.NewScanner(&stdout)
	sc.Buffer(make([]byte, 1<<20), 1<<28)
	for sc.Scan() {
		line := sc.Text()
		switch {
		case strings.HasPrefix(line, "CFG "):
			// a free-running seed prints two phases: the last configuration and its
			// action list are the ones that were executing
			r.Config = json.RawMessage(line[4:])
			r.Actions = nil
		case strings.HasPrefix(line, "ACT "):
			r.Actions = append(r.Actions, json.RawMessage(line[4:]))
		case strings.HasPrefix(line, "END "):
			complete = true
		}
	}
	if r.Config == nil {
		return nil, !complete
	}
	return r, !complete
}

// retries: C17 and C18 runs contain choices the simulator cannot own (the runtime's pick
// between a tick and a stop request on an unbuffered channel; same-instant timers without
// the interposer): a replay file of those is re-run a few times before it is judged.
func retries(prop string) int {
	if prop == "C17" || prop == "C18" {
		return 4
	}
	// runs with log-statement yields can make two transaction timers share an instant
	// (their callbacks' order is then the runtime's): one extra try everywhere
	return 2
}

func replayMatches(bin, path, prop, sig string, gomaxprocs int) (*Violation, bool) {
	var last *Violation
	for try := 0; try < retries(prop)+2; try++ {
		v, _, err := replayOnce(bin, path, gomaxprocs)
		if err != nil {
			continue
		}
		last = v
		if v != nil && v.Signature == sig {
			return v, true
		}
		if retries(prop) == 1 {
			break
		}
	}
	return last, false
}

// minimise: ddmin over the action list; a candidate is kept if the same signature fails.
func minimise(bin string, rf *ReplayFile, gomaxprocs int, budget time.Duration) {
	deadline := time.Now().Add(budget)
	tmpdir, _ := os.MkdirTemp(buildDir, "min")
	defer os.RemoveAll(tmpdir)
	var mu sync.Mutex
	n := 0
	test := func(actions []json.RawMessage) bool {
		mu.Lock()
		n++
		f := filepath.Join(tmpdir, fmt.Sprintf("c%d.json", n))
		mu.Unlock()
		c := *rf
		c.Actions = actions
		writeReplay(f, &c)
		defer os.Remove(f)
		for try := 0; try < retries(rf.Property); try++ {
			v, _, err := replayOnce(bin, f, gomaxprocs)
			if err == nil && v != nil && v.Property == rf.Property && v.Signature == rf.Signature {
				return true
			}
		}
		return false
	}
	cur := rf.Actions
	gran := 2
	for len(cur) >= 2 && time.Now().Before(deadline) {
		size := (len(cur) + gran - 1) / gran
		type cand struct {
			acts []json.RawMessage
			ok   bool
		}
		var cands []*cand
		for i := 0; i < len(cur); i += size {
			j := i + size
			if j > len(cur) {
				j = len(cur)
			}
			rest := append(append([]json.RawMessage{}, cur[:i]...), cur[j:]...)
			cands = append(cands, &cand{acts: rest})
		}
		var wg sync.WaitGroup
		sem := make(chan struct{}, runtime.NumCPU())
		for _, c := range cands {
			wg.Add(1)
			sem <- struct{}{}
			go func(c *cand) {
				defer wg.Done()
				defer func() { <-sem }()
				c.ok = test(c.acts)
			}(c)
		}
		wg.Wait()
		reduced := false
		for _, c := range cands {
			if c.ok {
				cur = c.acts
				if gran > 2 {
					gran--
				}
				reduced = true
				break
			}
		}
		if !reduced {
			if size == 1 {
				break
			}
			gran *= 2
			if gran > len(cur) {
				gran = len(cur)
			}
		}
	}
	rf.Actions = cur
	rf.MinLen = len(cur)
}

// ---- known findings ----------------------------------------------------------------------

func loadKnown() []KnownFinding {
	b, err := os.ReadFile(filepath.Join(verifDir, "known_findings.json"))
	if err != nil {
		return nil
	}
	var k struct {
		Findings []KnownFinding `json:"findings"`
	}
	if err := json.Unmarshal(b, &k); err != nil {
		fail2("known_findings.json: %v", err)
	}
	return k.Findings
}

// ---- the check ---------------------------------------------------------------------------

type tierSpec struct {
	secs     int
	maxRuns  int
	masters  int
	minSecs  int
	chunkLen int
}

func tierOf(prop, tier string) tierSpec {
	if tier == "thorough" {
		return tierSpec{secs: 600, maxRuns: 3000000, masters: 3, chunkLen: 400}
	}
	return tierSpec{secs: 35, maxRuns: 200000, masters: 1, chunkLen: 100}
}

func cmdRun(args []string) int {
	if len(args) < 1 {
		fail2("usage: vcheck run <property> [--tier quick|thorough]")
	}
	prop := args[0]
	tier := os.Getenv("VERIF_TIER")
	if tier == "" {
		tier = "quick"
	}
	secsOverride, runsOverride := 0, 0
	for i := 1; i < len(args); i++ {
		switch args[i] {
		case "--tier":
			i++
			tier = args[i]
		case "--secs":
			i++
			secsOverride, _ = strconv.Atoi(args[i])
		case "--runs":
			i++
			runsOverride, _ = strconv.Atoi(args[i])
		}
	}
	master := uint64(1)
	if v := os.Getenv("VERIF_SEED"); v != "" {
		if x, err := strconv.ParseUint(v, 10, 64); err == nil {
			master = x
		}
	}
	fmt.Printf("VERIF_SEED=%d property=%s tier=%s\n", master, prop, tier)
	start := time.Now()
	race := prop == "C17" || prop == "C20"
	bin := build(race)
	buildSecs := time.Since(start).Seconds()
	spec := tierOf(prop, tier)
	if tier == "quick" {
		chunkTestTimeout, chunkWatchdog = "8m", 10*time.Minute
	}
	if secsOverride > 0 {
		spec.secs = secsOverride
	}
	if runsOverride > 0 {
		spec.maxRuns = runsOverride
	}
	th := treeHash()
	gmp := 1

	// 1. known findings of this property: replay the witnesses
	known := loadKnown()
	knownSig := map[string]*KnownFinding{}
	exit := 0
	// the witnesses are replayed concurrently (a fixed finding is expected NOT to reproduce,
	// which costs every retry)
	witnessRes := map[int]chan *Violation{}
	for i := range known {
		k := &known[i]
		if k.Property != prop || k.Witness == "" {
			continue
		}
		ch := make(chan *Violation, 1)
		witnessRes[i] = ch
		go func() {
			v, _ := replayMatches(bin, filepath.Join(verifDir, k.Witness), prop, k.Signature, gmp)
			ch <- v
		}()
	}
	for i := range known {
		k := &known[i]
		if k.Property != prop {
			continue
		}
		if k.Status == "known" {
			knownSig[k.Signature] = k
		}
		if k.Witness == "" {
			continue
		}
		wf := filepath.Join(verifDir, k.Witness)
		v := <-witnessRes[i]
		switch {
		case k.Status == "known" && v != nil && v.Signature == k.Signature:
			fmt.Printf("KNOWN-FINDING: property=%s %s [%s] witness=%s\n", prop, k.Description, k.Signature, wf)
		case k.Status == "known":
			fmt.Printf("NOTE: known finding %s no longer reproduces from its witness %s\n", k.ID, wf)
		case k.Status == "fixed" && v != nil:
			fmt.Printf("VIOLATION property=%s replay=%s\n", prop, wf)
			fmt.Printf("  fixed finding %s is back: %s\n", k.ID, v.Signature)
			exit = 1
		}
	}

	// 2. exploration
	nw := runtime.NumCPU()
	if v := os.Getenv("VERIF_WORKERS"); v != "" {
		if x, err := strconv.Atoi(v); err == nil && x > 0 {
			nw = x
		}
	}
	type agg struct {
		mu        sync.Mutex
		runs      int
		simMs     int64
		steps     int
		fired     map[string]int
		probes    map[string]int
		nontriv   map[string]bool
		distinct  map[string]bool
		states    map[string]bool
		samples   []json.RawMessage
		viol      map[string][]*RunResult
		harness   []string
		knownSeen map[string]int
	}
	a := &agg{fired: map[string]int{}, probes: map[string]int{}, nontriv: map[string]bool{}, distinct: map[string]bool{},
		states: map[string]bool{}, viol: map[string][]*RunResult{}, knownSeen: map[string]int{}}
	deadline := start.Add(time.Duration(spec.secs) * time.Second)
	exploreDeadline = deadline
	if race {
		spinSecs = 150
	} else if tier == "thorough" {
		spinSecs = 90
	}
	var next uint64
	var nmu sync.Mutex
	base := master * 100000000
	take := func() (chunk, bool) {
		nmu.Lock()
		defer nmu.Unlock()
		if int(next) >= spec.maxRuns || time.Now().After(deadline) {
			return chunk{}, false
		}
		c := chunk{base + next, spec.chunkLen}
		next += uint64(spec.chunkLen)
		return c, true
	}
	var detRes map[string]any
	detDone := make(chan struct{})
	go func() {
		defer close(detDone)
		if race || os.Getenv("VERIF_NOEVIDENCE") != "" {
			return
		}
		ds, dp := 12, 3
		if tier == "thorough" {
			ds, dp = 60, 6
		}
		detRes = determinismSample(bin, prop, base+90000000, ds, dp)
	}()
	var wg sync.WaitGroup
	for w := 0; w < nw; w++ {
		wg.Add(1)
		go func() {
			defer wg.Done()
			for {
				ck, ok := take()
				if !ok {
					return
				}
				wo := runChunk(bin, prop, ck, gmp)
				a.mu.Lock()
				for _, r := range append(wo.results, wo.crashes...) {
					a.runs++
					a.simMs += r.SimTimeMs
					a.steps += r.Steps
					for k, v := range r.Fired {
						a.fired[k] += v
					}
					for k, v := range r.Probes {
						a.probes[k] += v
					}
					if r.ActionsHash != "" {
						a.distinct[r.ActionsHash] = true
						if r.NonTrivial {
							a.nontriv[r.ActionsHash] = true
						}
					}
					for _, s := range r.States {
						a.states[s] = true
					}
					if r.Sample != nil && len(a.samples) < 3 {
						a.samples = append(a.samples, r.Sample)
					}
					if r.Harness != "" {
						a.harness = append(a.harness, fmt.Sprintf("seed %d: %s", r.Seed, r.Harness))
					}
					if r.Violation != nil {
						key := r.Violation.Property + "\x00" + r.Violation.Signature
						if len(a.viol[key]) < 3 {
							a.viol[key] = append(a.viol[key], r)
						} else {
							a.viol[key] = append(a.viol[key], nil)
						}
					}
				}
				a.mu.Unlock()
			}
		}()
	}
	wg.Wait()
	<-detDone
	exploreDeadline = time.Time{}
	if len(a.harness) > 0 {
		fail2("harness errors (not a verdict), first: %s", a.harness[0])
	}

	// 3. violations: known ones are counted, new ones minimised and reported
	var keys []string
	for k := range a.viol {
		keys = append(keys, k)
	}
	sort.Strings(keys)
	nviol := 0
	var unrepro []string
	nMin := 0 // only the first few new signatures are minimised (wall-clock cap)
	for _, key := range keys {
		rs := a.viol[key]
		r0 := rs[0]
		v := r0.Violation
		if v.Property == prop {
			if kf, ok := knownSig[v.Signature]; ok {
				a.knownSeen[kf.ID] += len(rs)
				continue
			}
		}
		nviol += len(rs)
		// the first run of the group whose replay file reproduces it carries the report; a
		// group none of whose runs replays is set aside (and makes the check fail as a
		// harness problem unless something else is reported)
		var rf *ReplayFile
		var v1 *Violation
		h := sha256.Sum256([]byte(key))
		path := filepath.Join(verifDir, "replays", fmt.Sprintf("%s-%x.json", v.Property, h[:5]))
		for _, rc := range rs {
			if rc == nil {
				continue
			}
			full, crashed := getActions(bin, prop, rc.Seed, gmp)
			if full == nil {
				fail2("cannot recover the action list of seed %d", rc.Seed)
			}
			cand := &ReplayFile{Property: v.Property, Invariant: v.Invariant, Signature: v.Signature, Detail: rc.Violation.Detail,
				Config: full.Config, Actions: full.Actions, TreeHash: th, OrigLen: len(full.Actions), MinLen: len(full.Actions), Crash: crashed}
			writeReplay(path, cand)
			got, ok1 := replayMatches(bin, path, v.Property, v.Signature, gmp)
			if ok1 {
				rf, v1, r0 = cand, got, rc
				break
			}
			gs := "nothing"
			if got != nil {
				gs = got.Signature
			}
			unrepro = append(unrepro, fmt.Sprintf("seed %d violated %s [%s] but its replay file does not reproduce it (got %s)", rc.Seed, v.Property, v.Signature, gs))
		}
		if rf == nil {
			os.Remove(path)
			continue
		}
		unmin := *rf
		nMin++
		if nMin <= 4 {
			minimise(bin, rf, gmp, 45*time.Second)
		}
		writeReplay(path, rf)
		v2, ok2 := replayMatches(bin, path, v.Property, v.Signature, gmp)
		if !ok2 {
			// keep the unminimised file, which did reproduce
			*rf = unmin
			writeReplay(path, rf)
			v2 = v1
		}
		rf.Detail = v2.Detail
		writeReplay(path, rf)
		fmt.Printf("VIOLATION property=%s replay=%s\n", v.Property, path)
		fmt.Printf("  invariant=%s signature=%s seed=%d occurrences=%d actions %d -> %d\n  %s\n",
			v.Invariant, v.Signature, r0.Seed, len(rs), rf.OrigLen, rf.MinLen, strings.ReplaceAll(tail(firstLines(v2.Detail, 12), 1500), "\n", "\n  "))
		exit = 1
	}

	for _, u := range unrepro {
		fmt.Fprintf(os.Stderr, "vcheck: %s\n", u)
	}
	if exit == 0 && len(unrepro) > 0 {
		fail2("%d violation(s) seen that no replay file reproduces: simulator not deterministic on this tree? (not a verdict)", len(unrepro))
	}

	// 4. evidence
	wall := time.Since(start).Seconds()
	var nontrivList []string
	for k := range a.nontriv {
		nontrivList = append(nontrivList, k)
	}
	ev := map[string]any{
		"property_id": prop,
		"tier":        tier,
		"seed":        master,
		"level":       "exploration",
		"wall_s":      wall,
		"violations":  nviol,
		"coverage": map[string]any{
			"evaluations":         a.runs,
			"distinct_nontrivial": len(a.nontriv),
			"rule":                ruleText(prop),
			"samples":             a.samples,
			"distinct_action_lists": len(a.distinct),
			"distinct_abstract_states": len(a.states),
			"simulated_steps":     a.steps,
			"simulated_time_s":    float64(a.simMs) / 1000,
			"runs_per_hour":       float64(a.runs) / wall * 3600,
			"seeds":               fmt.Sprintf("%d..%d", base, base+next),
			"faults_fired":        a.fired,
			"probes":              a.probes,
			"known_findings_seen": a.knownSeen,
			"build_s":             buildSecs,
			"workers":             nw,
			"tree_hash":           th,
			"components_real":     "go-upf internal/pfcp, internal/forwarder (gtp5g driver, buffnetlink, perio), internal/report, internal/gtpv1, pkg/factory types; go-pfcp; go-gtp5gnl; go-genl; go-rtnllink; go-rtnlroute; go-nl attr/msg/request/client; Go runtime timers, channels, scheduler (testing/synctest bubble)",
			"components_simulated": "N4 and GTP-U UDP sockets, netlink sockets and mux loop (go-nl conn/mux/syscall replaced), gtp5g kernel module (simkernel), OS link device ioctls, name resolution (net.Resolve*), SMFs, gNB, detached report producers, clock, Go map iteration order, ready-case choice of receive-only selects, process exit hook",
			"components_not_run":  "cmd/main.go, pkg/app signal handling, pkg/factory file loading",
		},
		"assumptions": assumptions(prop),
	}
	if detRes != nil {
		ev["coverage"].(map[string]any)["determinism_sample"] = detRes
		fmt.Printf("determinism sample: %v seeds x %v processes, %v divergent event hashes, %v divergent verdicts\n",
			detRes["seeds"], detRes["processes"], detRes["divergent_event_hash"], detRes["divergent_verdict"])
	} else if race {
		ev["coverage"].(map[string]any)["determinism_sample"] = "not computed: race-detector runs (free-running phase / start-up simulation) have no event hash; replay files are re-run up to 6 times before a verdict"
	}
	os.MkdirAll(filepath.Join(verifDir, "evidence"), 0o755)
	eb, _ := json.MarshalIndent(ev, "", " ")
	if os.Getenv("VERIF_NOEVIDENCE") == "" { // set only by /verif/tools/try_patch.sh (trial runs against seeded changes)
		if err := os.WriteFile(filepath.Join(verifDir, "evidence", prop+".json"), eb, 0o644); err != nil {
			fail2("%v", err)
		}
	}
	fmt.Printf("property=%s tier=%s runs=%d nontrivial=%d states=%d sim_time=%.0fs wall=%.1fs violations=%d known=%v\n",
		prop, tier, a.runs, len(a.nontriv), len(a.states), float64(a.simMs)/1000, wall, nviol, a.knownSeen)
	return exit
}

func firstLines(s string, n int) string {
	l := strings.Split(s, "\n")
	if len(l) > n {
		l = l[:n]
	}
	return strings.Join(l, "\n")
}

func cmdReplay(args []string) int {
	if len(args) < 1 {
		fail2("usage: vcheck replay <file>")
	}
	b, err := os.ReadFile(args[0])
	if err != nil {
		fail2("%v", err)
	}
	var rf ReplayFile
	if err := json.Unmarshal(b, &rf); err != nil {
		fail2("%v", err)
	}
	bin := build(rf.Property == "C17" || rf.Property == "C20")
	v, hash, err := replayOnce(bin, args[0], 1)
	if err != nil {
		fail2("replay: %v", err)
	}
	if v == nil {
		fmt.Printf("replay %s: no violation (event hash %s)\n", args[0], hash)
		return 0
	}
	fmt.Printf("VIOLATION property=%s replay=%s\n  invariant=%s signature=%s\n  %s\n", v.Property, args[0], v.Invariant, v.Signature,
		strings.ReplaceAll(firstLines(v.Detail, 30), "\n", "\n  "))
	if v.Signature != rf.Signature {
		fmt.Printf("  NOTE: recorded signature was %s\n", rf.Signature)
	}
	return 1
}

// determinismSample runs the same seeds in several fresh processes at GOMAXPROCS 1/4/16 and
// counts the seeds whose event-log hash / verdict differs between processes. Part of every
// non-race check run (the result goes into the evidence, it is not a verdict).
func determinismSample(bin, prop string, first uint64, seeds, procs int) map[string]any {
	gmps := []int{1, 4, 16}
	hashes := make([]map[uint64]string, procs)
	verdicts := make([]map[uint64]string, procs)
	var wg sync.WaitGroup
	for p := 0; p < procs; p++ {
		wg.Add(1)
		go func(p int) {
			defer wg.Done()
			wo := runChunk(bin, prop, chunk{first, seeds}, gmps[p%len(gmps)])
			h, v := map[uint64]string{}, map[uint64]string{}
			for _, r := range wo.results {
				h[r.Seed] = r.EventHash + "/" + fmt.Sprint(r.Steps)
				if r.Violation != nil {
					v[r.Seed] = r.Violation.Signature
				}
			}
			for _, r := range wo.crashes {
				h[r.Seed] = "crash"
				if r.Violation != nil {
					v[r.Seed] = "crash:" + r.Violation.Signature
				}
			}
			hashes[p], verdicts[p] = h, v
		}(p)
	}
	wg.Wait()
	badHash, badVerdict := 0, 0
	for s := first; s < first+uint64(seeds); s++ {
		dh, dv := false, false
		for p := 1; p < procs; p++ {
			if hashes[p][s] != hashes[0][s] {
				dh = true
			}
			if verdicts[p][s] != verdicts[0][s] {
				dv = true
			}
		}
		if dh {
			badHash++
		}
		if dv {
			badVerdict++
		}
	}
	return map[string]any{"seeds": seeds, "processes": procs, "gomaxprocs": "1/4/16 in turn",
		"divergent_event_hash": badHash, "divergent_verdict": badVerdict,
		"what": "same seeds in fresh processes; event hash = every datagram, netlink request/answer, forwarded report and GTP-U packet with its simulated time"}
}

// determinism self-test: same seed in fresh processes at GOMAXPROCS 1/4/16 must give
// the same event-log hash.
func cmdDeterminism(args []string) int {
	if len(args) < 1 {
		fail2("usage: vcheck determinism <property> [--seeds N] [--procs N]")
	}
	prop := args[0]
	seeds, procs := 40, 6
	for i := 1; i < len(args); i++ {
		switch args[i] {
		case "--seeds":
			i++
			seeds, _ = strconv.Atoi(args[i])
		case "--procs":
			i++
			procs, _ = strconv.Atoi(args[i])
		}
	}
	bin := build(false)
	gmps := []int{1, 4, 16}
	type res struct{ hashes map[uint64]string }
	all := make([]map[uint64]string, procs)
	var wg sync.WaitGroup
	for p := 0; p < procs; p++ {
		wg.Add(1)
		go func(p int) {
			defer wg.Done()
			wo := runChunk(bin, prop, chunk{777000, seeds}, gmps[p%len(gmps)])
			m := map[uint64]string{}
			for _, r := range wo.results {
				m[r.Seed] = r.EventHash + "/" + fmt.Sprint(r.Steps)
			}
			for _, r := range wo.crashes {
				m[r.Seed] = "crash:" + r.Violation.Signature
			}
			all[p] = m
		}(p)
	}
	wg.Wait()
	bad := 0
	for s := uint64(777000); s < uint64(777000+seeds); s++ {
		for p := 1; p < procs; p++ {
			if all[p][s] != all[0][s] {
				fmt.Printf("NONDETERMINISM seed=%d proc0(GOMAXPROCS=1)=%s proc%d(GOMAXPROCS=%d)=%s\n", s, all[0][s], p, gmps[p%3], all[p][s])
				bad++
				break
			}
		}
	}
	fmt.Printf("determinism %s: %d seeds x %d processes (GOMAXPROCS 1/4/16), %d divergent\n", prop, seeds, procs, bad)
	if bad > 0 {
		return 2
	}
	return 0
}

func main() {
	if len(os.Args) < 2 {
		fail2("usage: vcheck build|run|replay|determinism ...")
	}
	switch os.Args[1] {
	case "build":
		race := len(os.Args) > 2 && os.Args[2] == "--race"
		fmt.Println(build(race))
	case "run":
		os.Exit(cmdRun(os.Args[2:]))
	case "replay":
		os.Exit(cmdReplay(os.Args[2:]))
	case "determinism":
		os.Exit(cmdDeterminism(os.Args[2:]))
	default:
		fail2("unknown command %q", os.Args[1])
	}
}
