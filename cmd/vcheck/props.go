package main

const caseText = "one case = one seeded simulated run: a generated action list (PFCP requests from 1-4 simulated SMFs, kernel notifications, clock advances, armed faults, stop) executed against the real go-upf code in a synctest bubble; distinct = distinct action-list hash; "

var rules = map[string]string{
	"C01": caseText + "non-trivial = a data-plane fault fired on a create/update/query of a session that later ended, or the run ended >= 2 sessions that held rules",
	"C02": caseText + "non-trivial = the run translated >= 1 uplink PDR with >= 2 SDF filters AND >= 1 FAR update",
	"C03": caseText + "non-trivial = the run translated a QER rate >= 2^32, a URR with and a URR without the periodic trigger (registration checked against the periodic server)",
	"C04": caseText + "non-trivial = a released SEID was re-issued AND a request with SEID >= 2^63 was answered",
	"C05": caseText + "non-trivial = a deletion / re-association / SEID-0 response was processed while >= 3 sessions were live",
	"C06": caseText + "non-trivial = >= 1 duplicate delivered inside the retention window AND >= 1 after it",
	"C07": caseText + "non-trivial = >= 1 mutated datagram that still parses as a PFCP message AND >= 1 that does not, each followed by an answered heartbeat probe",
	"C08": caseText + "non-trivial = the run contains an unanswerable request, an accepted establishment and a request for a non-existing session",
	"C09": caseText + "non-trivial = >= 1 UPF-initiated request stopped by a matching response AND >= 1 abandoned after its retries",
	"C10": caseText + "non-trivial = >= 1 kernel-originated report delivered, >= 1 pulled report delivered, >= 1 report for an unknown session/URR dropped",
	"C11": caseText + "non-trivial = some URR reached UR-SEQN >= 2 and reports travelled in >= 2 of the 3 carriers",
	"C12": caseText + "non-trivial = >= 1 termination report due to the last PDR going away AND >= 1 due to URR removal / session deletion",
	"C13": caseText + "non-trivial = >= 1 switch from buffering to forwarding released >= 2 queued packets",
	"C14": caseText + "non-trivial = >= 1 release of >= 2 packets decoded by the independent GTP-U reader",
	"C15": caseText + "non-trivial = >= 2 ticks judged AND >= 1 period group released",
	"C17": caseText + "non-trivial = Stop() was called while receive/transmit transactions (timers) were pending; runs execute under the race detector",
	"C20": "one case = one simulated start-up: a configuration file generated from a valid one by 0-3 in-domain variations and, in 2 of 5 runs, one or two faults from a catalogue of single-field faults that are invalid beyond doubt (absent, empty, mistyped, out of range), read through pkg/factory (node-id resolution through the simulated resolver); if accepted, the gtp5g driver is started against the simulated kernel with a generated module version (around both bounds and random x.y.z), optionally a failing start-up request (module not loaded, version query failing, link device not creatable) and a scheduling choice at mux.Close, then serves one heartbeat and is shut down; distinct = distinct plan; non-trivial = the configuration was rejected as expected, or a start-up was attempted",
	"C18": caseText + "non-trivial = the run ended with the progress probe answered after bursts (queues shrunk by knobs in most runs)",
}

func ruleText(p string) string {
	if r, ok := rules[p]; ok {
		return r
	}
	return caseText + "non-trivial = the run reached the property's own coverage probes"
}

func assumptions(p string) []string {
	a := []string{
		"the simulated gtp5g kernel (simkernel) follows the netlink format and ADD/DEL/GET semantics as read from go-gtp5gnl and gtp5g (a multi-report query naming a missing URR fails as a whole; a reply must fit 7856 bytes); it is a model, not the kernel module",
		"name resolution is simulated: FQDN node ids resolve instantly from the simulator's zone or fail with no-such-host; resolver latency and time-outs are not modelled",
		"seeded search samples schedules, inputs and fault positions; a clean batch is evidence, not proof",
		"go-pfcp, go-gtp5gnl, go-genl and the kept half of go-nl run as shipped and are part of the system under test, not of the oracle",
	}
	switch p {
	case "C17":
		a = append(a, "race freedom is judged by the Go race detector on the schedules the simulator produced (lock-step); internal state is never read by the harness in these runs")
	case "C18":
		a = append(a, "most runs shrink the queue capacities through build-overlay knobs; both known wedges are also witnessed at the shipped capacities")
	case "C20":
		a = append(a, "the configuration half is plain seeded input generation (a pure function of the file): only unambiguous faults and in-domain variations are generated, strings whose validity the statement leaves open (odd host names, empty lists, unknown keys) are not; gtp5g version strings are numeric x.y.z",
			"start-up runs execute under the race detector")
	case "C14":
		a = append(a, "only the header form the UPF can emit (flags 0x34, PDU type 0) is reachable; the pure encoder grid over PDU types is not claimed")
	}
	return a
}
