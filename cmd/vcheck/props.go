package main

var rules = map[string]string{
	"C01": "one case = one seeded simulated run (generated action list: PFCP requests from 1-3 SMFs with colliding / repeated / never-created / twice-removed rule ids, re-association, SEID-0 report responses, armed data-plane faults); non-trivial = at least one data-plane fault fired on a create/update/query AND a session that was hit by it later ended, or the run ended >= 2 sessions holding rules; distinct = distinct action-list hash",
	"C04": "one case = one seeded run of establish / delete / re-associate / SEID-0 histories with SEID-class probes; non-trivial = a released SEID was re-issued AND a probe with SEID >= 2^63 was answered; distinct = distinct action-list hash",
	"C05": "one case = one seeded run with >= 2 SMFs and sessions sharing rule ids and CP SEIDs; non-trivial = >= 3 sessions live at once while a deletion or re-association or SEID-0 response was processed; distinct = distinct action-list hash",
	"C06": "one case = one seeded run with duplicated / held / reordered requests and clock advances; non-trivial = >= 1 duplicate delivered inside the retention window AND >= 1 after it; distinct = distinct action-list hash",
	"C08": "one case = one seeded run; non-trivial = run contains an unanswerable request (missing Node ID / F-SEID / unknown node) AND an accepted establishment AND a request for a non-existing session; distinct = distinct action-list hash",
	"C09": "one case = one seeded run with UPF-initiated requests, lossy / wrong / duplicated answers; non-trivial = >= 1 request stopped by a response AND >= 1 abandoned after its retries; distinct = distinct action-list hash",
}

func ruleText(p string) string {
	if r, ok := rules[p]; ok {
		return r
	}
	return "one case = one seeded simulated run (generated action list executed against the real go-upf code in a synctest bubble); non-trivial = the run reached the property's own coverage probes (see probes); distinct = distinct action-list hash"
}

func assumptions(p string) []string {
	a := []string{
		"the simulated gtp5g kernel (simkernel) follows the netlink format and ADD/DEL/GET semantics as read from go-gtp5gnl and gtp5g; it is a model, not the kernel module",
		"control-plane node ids are IPv4 literals (FQDN node ids need a resolver)",
		"seeded search samples schedules, inputs and fault positions; a clean batch is evidence, not proof",
		"go-pfcp, go-gtp5gnl, go-genl and the kept half of go-nl run as shipped and are part of the system under test, not of the oracle",
	}
	return a
}
