#!/usr/bin/env python3
"""Prints the markdown table of DESIGN.md §12 from seeded/*/meta.json."""
import json, glob, os
print('| id | breaks | needs | caught by |')
print('|---|---|---|---|')
for d in sorted(glob.glob('/verif/seeded/*/meta.json')):
    m = json.load(open(d))
    f = lambda s: str(s).replace('|', '/').replace('\n', ' ')
    print(f"| {m['id']} | {m['breaks_property']} | {f(m['needs_to_manifest'])} | {f(m['checks_run'])} |")
