#!/bin/sh
# usage: try_patch.sh <patch.diff> <secs> <property>...
# Applies a candidate breaking change to /repo, runs the named checks, and ALWAYS restores /repo.
patch="$1"; secs="$2"; shift 2
cd /verif || exit 2
if [ -n "$(git -C /repo status --porcelain)" ]; then echo "repo not clean"; exit 2; fi
git -C /repo apply "$patch" || { echo "patch does not apply"; exit 2; }
# restore /repo AND the simulator binary (a stale mutant binary once cost an hour of confusion)
trap 'git -C /repo checkout -- . ; git -C /repo clean -fdq; ./bin/vcheck build >/dev/null 2>&1' EXIT INT TERM
for p in "$@"; do
  VERIF_NOEVIDENCE=1 ./bin/vcheck run "$p" --secs "$secs" 2>&1 | grep -A3 "^VIOLATION\|^property=\|^vcheck:\|^KNOWN" | cut -c1-400
  echo "exit($p)=$?"
done
