#!/usr/bin/env python3
"""keep_seed.py <id> <property> <worktree> <caught_by> <needs> -- archive a confirmed breaking change under /verif/seeded/<id>/"""
import sys, os, shutil, json, glob, subprocess
sid, prop, wt, caught, needs = sys.argv[1:6]
dst = f'/verif/seeded/{sid}'
os.makedirs(dst, exist_ok=True)
shutil.copy(f'{wt}/patch.diff', f'{dst}/patch.diff')
demos = [f for f in subprocess.check_output(['git','-C',wt,'status','--porcelain','--untracked-files=all']).decode().split('\n') if f.startswith('??')]
kept = []
for d in demos:
    f = d[3:]
    if f in ('patch.diff',) or f.endswith('.prompt.txt'): continue
    os.makedirs(os.path.dirname(f'{dst}/demo/{f}') or dst, exist_ok=True)
    shutil.copy(f'{wt}/{f}', f'{dst}/demo/{f}')
    kept.append(f)
meta = {"id": sid, "breaks_property": prop, "needs_to_manifest": needs, "demonstration": kept,
        "confirmed": "applied in a scratch worktree: builds, baseline tests pass, demo fails with the change and passes without it",
        "checks_run": caught}
json.dump(meta, open(f'{dst}/meta.json', 'w'), indent=1)
print('kept', dst, kept)
