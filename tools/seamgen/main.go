// seamgen reads go-upf's CURRENT working tree and produces, without writing to it, the
// overlay the simulator is compiled with (DESIGN.md §2.2):
//
//	R1  every type expression *net.UDPConn            -> *simhook.UDPConn
//	R2  every call net.ListenUDP(...)                  -> simhook.ListenUDP(...)
//	R3  every `range` over a map-typed expression      -> seed-ordered iteration
//	R6  queue-capacity constants used as call args     -> simhook.Knob("NAME", NAME)
//	R8  net.ResolveUDPAddr / net.ResolveIPAddr          -> simhook.Resolve… (IP literals resolve as
//	    in package net; host names are answered by the simulator's resolver, never by DNS)
//	R9  time.AfterFunc(...)                            -> simhook.AfterFunc(...): the simulator adds a
//	    few ns, different for every timer, so that no two transaction timers expire in one
//	    instant (the order of their callbacks would be the Go runtime's, not the seed's)
//	R10 time.NewTicker(...)                            -> simhook.NewTicker(...): the same ticker, but
//	    the simulator is told when it was started and with which period (it then knows
//	    every instant at which a tick can fall due)
//	R7  `select` over receive cases only (no default)  -> the simulator chooses which READY
//	    case runs when several are ready (the others' channels are nil for that round)
//
// All edits are same-line text splices, so line numbers in panics and race reports are
// those of the real source. Targets are found by syntax and type, never by line number.
// Exit status: 0 ok, 2 anything else ("build trouble", never a verdict).
package main

import (
	"bytes"
	"encoding/json"
	"flag"
	"fmt"
	"go/ast"
	"go/importer"
	"go/parser"
	"go/token"
	"go/types"
	"hash/fnv"
	"io"
	"os"
	"os/exec"
	"path/filepath"
	"sort"
	"strings"
)

var (
	repo   = flag.String("repo", "/repo", "go-upf working tree")
	verif  = flag.String("verif", "/verif", "verification directory")
	out    = flag.String("out", "/verif/.build", "output directory")
	gobin  = flag.String("go", "go1.26.8", "go command")
	quiet  = flag.Bool("q", false, "quiet")
	module = "github.com/free5gc/go-upf"
)

var targetPkgs = []string{
	"internal/pfcp",
	"internal/forwarder",
	"internal/forwarder/perio",
	"internal/forwarder/buffnetlink",
	"pkg/factory",
}

var knobNames = map[string]bool{
	"RECEIVE_CHANNEL_LEN":       true,
	"REPORT_CHANNEL_LEN":        true,
	"TRANS_TIMEOUT_CHANNEL_LEN": true,
	"BUFFQ_LEN":                 true,
	"EVENT_CHANNEL_LEN":         true,
}

type listPkg struct {
	ImportPath string
	Dir        string
	Export     string
	GoFiles    []string
	Error      *struct{ Err string }
}

type edit struct {
	start, end int
	text       string
}

type counts struct{ R1, R2, R3, R6, R7, R8, R9, R10 int }

func die(f string, a ...any) {
	fmt.Fprintf(os.Stderr, "seamgen: "+f+"\n", a...)
	os.Exit(2)
}

func goEnv() []string {
	env := os.Environ()
	env = append(env, "GOFLAGS=-mod=mod", "GOPROXY=off", "GOSUMDB=off", "GOTOOLCHAIN=local")
	return env
}

func main() {
	flag.Parse()
	if err := os.MkdirAll(filepath.Join(*out, "src"), 0o755); err != nil {
		die("%v", err)
	}

	// 1. export data for everything the target packages import (original module graph).
	args := []string{"list", "-export", "-deps", "-json=ImportPath,Dir,Export,GoFiles,Error"}
	for _, p := range targetPkgs {
		args = append(args, "./"+p)
	}
	cmd := exec.Command(*gobin, args...)
	cmd.Dir = *repo
	cmd.Env = goEnv()
	var stderr bytes.Buffer
	cmd.Stderr = &stderr
	outb, err := cmd.Output()
	if err != nil {
		die("go list failed: %v\n%s", err, stderr.String())
	}
	pkgs := map[string]*listPkg{}
	dec := json.NewDecoder(bytes.NewReader(outb))
	for {
		var p listPkg
		if err := dec.Decode(&p); err == io.EOF {
			break
		} else if err != nil {
			die("go list json: %v", err)
		}
		if p.Error != nil {
			die("package %s: %s", p.ImportPath, p.Error.Err)
		}
		pp := p
		pkgs[p.ImportPath] = &pp
	}

	fset := token.NewFileSet()
	imp := importer.ForCompiler(fset, "gc", func(path string) (io.ReadCloser, error) {
		p, ok := pkgs[path]
		if !ok || p.Export == "" {
			return nil, fmt.Errorf("no export data for %q", path)
		}
		return os.Open(p.Export)
	})

	overlay := map[string]string{}
	var total counts
	var sites []string

	for _, rel := range targetPkgs {
		ip := module + "/" + rel
		lp, ok := pkgs[ip]
		if !ok {
			die("package %s not listed", ip)
		}
		var files []*ast.File
		var names []string
		srcs := map[string][]byte{}
		for _, gf := range lp.GoFiles {
			fn := filepath.Join(lp.Dir, gf)
			b, err := os.ReadFile(fn)
			if err != nil {
				die("%v", err)
			}
			f, err := parser.ParseFile(fset, fn, b, parser.ParseComments)
			if err != nil {
				die("parse %s: %v", fn, err)
			}
			files = append(files, f)
			names = append(names, fn)
			srcs[fn] = b
		}
		info := &types.Info{
			Types: map[ast.Expr]types.TypeAndValue{},
			Uses:  map[*ast.Ident]types.Object{},
		}
		conf := types.Config{Importer: imp}
		if _, err := conf.Check(ip, fset, files, info); err != nil {
			die("typecheck %s: %v", ip, err)
		}
		for i, f := range files {
			fn := names[i]
			src := srcs[fn]
			edits, c, ss := rewriteFile(fset, f, src, info, rel+"/"+filepath.Base(fn))
			total.R1 += c.R1
			total.R2 += c.R2
			total.R3 += c.R3
			total.R6 += c.R6
			total.R7 += c.R7
			total.R8 += c.R8
			total.R9 += c.R9
			total.R10 += c.R10
			sites = append(sites, ss...)
			if len(edits) == 0 {
				continue
			}
			nb := apply(src, edits)
			dst := filepath.Join(*out, "src", rel, filepath.Base(fn))
			if err := os.MkdirAll(filepath.Dir(dst), 0o755); err != nil {
				die("%v", err)
			}
			if err := writeIfChanged(dst, nb); err != nil {
				die("%v", err)
			}
			overlay[fn] = dst
		}
	}
	if total.R1 == 0 {
		die("rule R1 matched nothing (*net.UDPConn)")
	}
	if total.R2 == 0 {
		die("rule R2 matched nothing (net.ListenUDP)")
	}
	if total.R8 == 0 {
		die("rule R8 matched nothing (net.ResolveUDPAddr / net.ResolveIPAddr)")
	}
	if total.R9 == 0 {
		die("rule R9 matched nothing (time.AfterFunc)")
	}
	if total.R10 == 0 {
		die("rule R10 matched nothing (time.NewTicker)")
	}
	if total.R3 == 0 {
		die("rule R3 matched nothing (range over map)")
	}
	if total.R6 == 0 {
		die("rule R6 matched nothing (queue constants)")
	}

	// 2. added files (all //go:build verif).
	add := func(srcDir, dstRel string) {
		ents, err := os.ReadDir(srcDir)
		if err != nil {
			die("%v", err)
		}
		for _, e := range ents {
			if e.IsDir() || !strings.HasSuffix(e.Name(), ".go") {
				continue
			}
			overlay[filepath.Join(*repo, dstRel, e.Name())] = filepath.Join(srcDir, e.Name())
		}
	}
	add(filepath.Join(*verif, "sim/simhook"), "internal/simhook")
	add(filepath.Join(*verif, "sim/verifsim"), "internal/verifsim")
	for _, x := range [][2]string{
		{"sim/export/pfcp_export.go", "internal/pfcp/verif_export.go"},
		{"sim/export/forwarder_export.go", "internal/forwarder/verif_export.go"},
		{"sim/export/perio_export.go", "internal/forwarder/perio/verif_export.go"},
	} {
		overlay[filepath.Join(*repo, x[1])] = filepath.Join(*verif, x[0])
	}

	// 3. go.mod / go.sum with the simulated go-nl.
	gm, err := os.ReadFile(filepath.Join(*repo, "go.mod"))
	if err != nil {
		die("%v", err)
	}
	gm = append(gm, []byte("\nreplace github.com/khirono/go-nl => "+filepath.Join(*verif, "sim/go-nl")+"\n")...)
	if err := writeIfChanged(filepath.Join(*out, "go.mod"), gm); err != nil {
		die("%v", err)
	}
	gs, err := os.ReadFile(filepath.Join(*repo, "go.sum"))
	if err != nil {
		die("%v", err)
	}
	if err := writeIfChanged(filepath.Join(*out, "go.sum"), gs); err != nil {
		die("%v", err)
	}

	ob, _ := json.MarshalIndent(map[string]any{"Replace": overlay}, "", " ")
	if err := writeIfChanged(filepath.Join(*out, "overlay.json"), ob); err != nil {
		die("%v", err)
	}
	sort.Strings(sites)
	rb, _ := json.MarshalIndent(map[string]any{
		"R1": total.R1, "R2": total.R2, "R3": total.R3, "R6": total.R6, "R7": total.R7, "R8": total.R8, "R9": total.R9, "R10": total.R10, "map_range_and_select_sites": sites,
	}, "", " ")
	_ = os.WriteFile(filepath.Join(*out, "seamgen.json"), rb, 0o644)
	if !*quiet {
		fmt.Printf("seamgen: R1=%d R2=%d R3=%d R6=%d R7=%d R8=%d R9=%d R10=%d files=%d\n", total.R1, total.R2, total.R3, total.R6, total.R7, total.R8, total.R9, total.R10, len(overlay))
	}
}

func writeIfChanged(fn string, b []byte) error {
	old, err := os.ReadFile(fn)
	if err == nil && bytes.Equal(old, b) {
		return nil
	}
	return os.WriteFile(fn, b, 0o644)
}

func apply(src []byte, edits []edit) []byte {
	sort.Slice(edits, func(i, j int) bool { return edits[i].start < edits[j].start })
	var b bytes.Buffer
	pos := 0
	for _, e := range edits {
		if e.start < pos {
			die("overlapping edits at %d", e.start)
		}
		b.Write(src[pos:e.start])
		b.WriteString(e.text)
		pos = e.end
	}
	b.Write(src[pos:])
	return b.Bytes()
}

func isNetSel(e ast.Expr, name string, info *types.Info) (*ast.Ident, bool) {
	return isPkgSel(e, "net", name, info)
}

func isPkgSel(e ast.Expr, pkg, name string, info *types.Info) (*ast.Ident, bool) {
	sel, ok := e.(*ast.SelectorExpr)
	if !ok || sel.Sel.Name != name {
		return nil, false
	}
	id, ok := sel.X.(*ast.Ident)
	if !ok {
		return nil, false
	}
	pn, ok := info.Uses[id].(*types.PkgName)
	if !ok || pn.Imported().Path() != pkg {
		return nil, false
	}
	return id, true
}

func orderedKey(t types.Type) bool {
	b, ok := t.Underlying().(*types.Basic)
	if !ok {
		return false
	}
	return b.Info()&(types.IsInteger|types.IsFloat|types.IsString) != 0
}

func pure(e ast.Expr) bool {
	switch x := e.(type) {
	case *ast.Ident:
		return true
	case *ast.SelectorExpr:
		return pure(x.X)
	case *ast.IndexExpr:
		return pure(x.X) && pure(x.Index)
	case *ast.ParenExpr:
		return pure(x.X)
	case *ast.StarExpr:
		return pure(x.X)
	case *ast.BasicLit:
		return true
	}
	return false
}

func rewriteFile(fset *token.FileSet, f *ast.File, src []byte, info *types.Info, rel string) ([]edit, counts, []string) {
	var edits []edit
	var c counts
	var sites []string
	tf := fset.File(f.Pos())
	off := func(p token.Pos) int { return tf.Offset(p) }
	text := func(n ast.Node) string { return string(src[off(n.Pos()):off(n.End())]) }

	timeName := ""
	netName := ""
	for _, is := range f.Imports {
		if is.Path.Value == `"net"` {
			netName = "net"
			if is.Name != nil {
				netName = is.Name.Name
			}
		}
	}

	// enclosing function names for stable site ids
	funcOf := func(p token.Pos) string {
		for _, d := range f.Decls {
			if fd, ok := d.(*ast.FuncDecl); ok && fd.Pos() <= p && p < fd.End() {
				name := fd.Name.Name
				if fd.Recv != nil && len(fd.Recv.List) > 0 {
					name = text(fd.Recv.List[0].Type) + "." + name
				}
				return name
			}
		}
		return "?"
	}
	ordinal := map[string]int{}
	n := 0
	labeled := map[ast.Stmt]bool{}
	ast.Inspect(f, func(nd ast.Node) bool {
		if l, ok := nd.(*ast.LabeledStmt); ok {
			labeled[l.Stmt] = true
		}
		return true
	})

	ast.Inspect(f, func(nd ast.Node) bool {
		switch x := nd.(type) {
		case *ast.StarExpr:
			if id, ok := isNetSel(x.X, "UDPConn", info); ok {
				edits = append(edits, edit{off(id.Pos()), off(id.End()), "simhook"})
				c.R1++
			}
		case *ast.CallExpr:
			if id, ok := isNetSel(x.Fun, "ListenUDP", info); ok {
				edits = append(edits, edit{off(id.Pos()), off(id.End()), "simhook"})
				c.R2++
			}
			if id, ok := isPkgSel(x.Fun, "time", "NewTicker", info); ok {
				edits = append(edits, edit{off(id.Pos()), off(id.End()), "simhook"})
				timeName = id.Name
				c.R10++
			}
			if id, ok := isPkgSel(x.Fun, "time", "AfterFunc", info); ok {
				edits = append(edits, edit{off(id.Pos()), off(id.End()), "simhook"})
				timeName = id.Name
				c.R9++
			}
			for _, fn := range []string{"ResolveUDPAddr", "ResolveIPAddr"} {
				if id, ok := isNetSel(x.Fun, fn, info); ok {
					edits = append(edits, edit{off(id.Pos()), off(id.End()), "simhook"})
					c.R8++
				}
			}
			for _, a := range x.Args {
				id, ok := a.(*ast.Ident)
				if !ok || !knobNames[id.Name] {
					continue
				}
				if cst, ok := info.Uses[id].(*types.Const); ok && cst.Parent() == cst.Pkg().Scope() {
					edits = append(edits, edit{off(id.Pos()), off(id.End()),
						fmt.Sprintf("simhook.Knob(%q, %s)", id.Name, id.Name)})
					c.R6++
				}
			}
		case *ast.SelectStmt:
			// all clauses must be receives from side-effect-free channel expressions
			var chans []ast.Expr
			okSel := len(x.Body.List) >= 2
			for _, cl := range x.Body.List {
				cc := cl.(*ast.CommClause)
				var recv ast.Expr
				switch c := cc.Comm.(type) {
				case *ast.ExprStmt:
					recv = c.X
				case *ast.AssignStmt:
					if len(c.Rhs) == 1 {
						recv = c.Rhs[0]
					}
				}
				u, isU := recv.(*ast.UnaryExpr)
				if !isU || u.Op != token.ARROW || !pure(u.X) {
					okSel = false
					break
				}
				chans = append(chans, u.X)
			}
			if !okSel {
				return true
			}
			fn := funcOf(x.Pos())
			ordinal["sel:"+fn]++
			siteName := fmt.Sprintf("%s:%s#select%d", rel, fn, ordinal["sel:"+fn])
			h := fnv.New32a()
			h.Write([]byte(siteName))
			site := int(h.Sum32() & 0x7fffffff)
			sites = append(sites, fmt.Sprintf("%s=%d", siteName, site))
			n++
			base := fmt.Sprintf("vsel%d_%d", fset.Position(x.Pos()).Line, n)
			var names, srcs, lens []string
			for i, c := range chans {
				nm := fmt.Sprintf("%s_%d", base, i)
				names = append(names, nm)
				srcs = append(srcs, text(c))
				lens = append(lens, "len("+nm+")")
				edits = append(edits, edit{off(c.Pos()), off(c.End()), nm})
			}
			var b strings.Builder
			fmt.Fprintf(&b, "%s := %s; switch simhook.Choose(%d, %s) { ", strings.Join(names, ", "), strings.Join(srcs, ", "), site, strings.Join(lens, ", "))
			for i := range names {
				var others, nils []string
				for j, nm := range names {
					if j != i {
						others = append(others, nm)
						nils = append(nils, "nil")
					}
				}
				fmt.Fprintf(&b, "case %d: %s = %s; ", i, strings.Join(others, ", "), strings.Join(nils, ", "))
			}
			b.WriteString("}; ")
			edits = append(edits, edit{off(x.Select), off(x.Select), b.String()})
			c.R7++
		case *ast.RangeStmt:
			tv, ok := info.Types[x.X]
			if !ok {
				die("%s: no type for range expression", fset.Position(x.Pos()))
			}
			mt, ok := tv.Type.Underlying().(*types.Map)
			if !ok {
				return true
			}
			if !orderedKey(mt.Key()) {
				die("%s: R3 cannot order map key type %s", fset.Position(x.Pos()), mt.Key())
			}
			impure := !pure(x.X)
			if impure && labeled[x] {
				die("%s: R3 range expression is not side-effect free and the loop is labelled: %s", fset.Position(x.Pos()), text(x.X))
			}
			fn := funcOf(x.Pos())
			ordinal[fn]++
			siteName := fmt.Sprintf("%s:%s#%d", rel, fn, ordinal[fn])
			h := fnv.New32a()
			h.Write([]byte(siteName))
			site := int(h.Sum32() & 0x7fffffff)
			sites = append(sites, fmt.Sprintf("%s=%d", siteName, site))
			n++
			id := fmt.Sprintf("%d_%d", fset.Position(x.Pos()).Line, n)
			vk, vv, vok := "vk"+id, "vv"+id, "vok"+id
			mx := text(x.X)
			prefix := ""
			if impure {
				// evaluate the expression once, in a block of its own: { vm := EXPR; for ... { ... } }
				vm := "vm" + id
				prefix = fmt.Sprintf("{ %s := %s; ", vm, mx)
				mx = vm
				edits = append(edits, edit{off(x.Body.Rbrace) + 1, off(x.Body.Rbrace) + 1, " }"})
			}
			tok := x.Tok.String()
			if x.Tok == token.ILLEGAL {
				tok = ":="
			}
			named := func(e ast.Expr) (string, bool) {
				if e == nil {
					return "", false
				}
				if idn, ok := e.(*ast.Ident); ok && idn.Name == "_" {
					return "", false
				}
				return text(e), true
			}
			var b strings.Builder
			b.WriteString(prefix)
			fmt.Fprintf(&b, "for _, %s := range simhook.Keys(%s, %d) { ", vk, mx, site)
			vname, vnamed := named(x.Value)
			if vnamed {
				fmt.Fprintf(&b, "%s, %s := (%s)[%s]; if !%s { continue }; ", vv, vok, mx, vk, vok)
			} else {
				fmt.Fprintf(&b, "if _, %s := (%s)[%s]; !%s { continue }; ", vok, mx, vk, vok)
			}
			if kname, ok := named(x.Key); ok {
				fmt.Fprintf(&b, "%s %s %s; ", kname, tok, vk)
			}
			if vnamed {
				fmt.Fprintf(&b, "%s %s %s; ", vname, tok, vv)
			}
			edits = append(edits, edit{off(x.For), off(x.Body.Lbrace) + 1, b.String()})
			c.R3++
		}
		return true
	})

	if len(edits) > 0 {
		edits = append(edits, edit{off(f.Name.End()), off(f.Name.End()),
			`; import simhook "` + module + `/internal/simhook"`})
		if netName != "" && netName != "_" && netName != "." {
			edits = append(edits, edit{len(src), len(src), "\nvar _ " + netName + ".Addr\n"})
		}
		if timeName != "" {
			edits = append(edits, edit{len(src), len(src), "\nvar _ " + timeName + ".Duration\n"})
		}
	}
	return edits, c, sites
}
