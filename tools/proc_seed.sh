#!/bin/sh
# usage: proc_seed.sh <worktree> <pkg> <property> [secs]  -- confirm a sub-agent's change, then try the property's check against it
wt="$1"; pkg="$2"; prop="$3"; secs="${4:-35}"
cd /verif || exit 2
echo "### confirm"; tools/confirm_seed.sh "$wt" "$pkg" TestDemo 2>&1 | grep -v "^WARNING" | grep "^==\|^ok\|^FAIL\|^---\|baseline\|^[0-9]" | head -12
echo "### try $prop"; tools/try_patch.sh "$wt/patch.diff" "$secs" "$prop" 2>&1 | grep -v "^WARNING" | grep "signature=\|^property=\|^vcheck\|^exit\|does not apply\|not clean" | cut -c1-260 | head -14
