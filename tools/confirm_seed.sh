#!/bin/sh
# usage: confirm_seed.sh <worktree> <pkg> <test-regex> : demo fails with the change, passes without, baseline otherwise unchanged
wt="$1"; pkg="$2"; re="$3"
cd "$wt" || exit 2
export GOFLAGS=-mod=mod GOPROXY=off GOSUMDB=off
echo "== with change:"; go test -vet=off -count=1 -run "$re" "$pkg" 2>&1 | tail -3
git apply -R patch.diff || { echo "cannot reverse patch"; exit 2; }
echo "== without change:"; go test -vet=off -count=1 -run "$re" "$pkg" 2>&1 | tail -2
git apply patch.diff
echo "== baseline with change (demo excluded):"
go test -vet=off -count=1 ./internal/... 2>&1 | grep -v "no test files" | grep -c "^ok"
go test -vet=off -count=1 -json ./internal/... 2>/dev/null | python3 -c "
import sys,json
base=set(t for t in json.load(open('/root/.vp/BASELINE.json'))['stable_pass'] if '/internal/' in t)
res={}
for l in sys.stdin:
    try: e=json.loads(l)
    except: continue
    if e.get('Test') and e.get('Action') in ('pass','fail'): res[e['Package']+'::'+e['Test']]=e['Action']
bad=[t for t in base if res.get(t)!='pass']
print('baseline tests not passing:',bad)"
