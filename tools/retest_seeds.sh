#!/bin/sh
# usage: retest_seeds.sh [secs] [id...]  -- re-run every archived seeded change against the check of the
# property it breaks (quick-tier length by default) and print caught / MISSED / does-not-apply.
secs="${1:-35}"; [ $# -gt 0 ] && shift
cd /verif || exit 2
ids="$*"; [ -z "$ids" ] && ids=$(ls seeded)
for id in $ids; do
  prop=$(python3 -c "import json;print(json.load(open('/verif/seeded/$id/meta.json'))['breaks_property'])")
  p=/verif/seeded/$id/patch.diff
  if ! git -C /repo apply --check "$p" 2>/dev/null; then echo "$id $prop DOES-NOT-APPLY"; continue; fi
  out=$(./tools/try_patch.sh "$p" "$secs" "$prop" 2>&1)
  if echo "$out" | grep -q "^VIOLATION"; then
    echo "$id $prop caught: $(echo "$out" | grep -m1 "signature=" | sed 's/.*signature=\([^ ]*\).*/\1/' | cut -c1-90)"
  else
    echo "$id $prop MISSED: $(echo "$out" | grep -m1 "^property=\|^vcheck" | cut -c1-160)"
  fi
done
