//go:build verif

// Package simhook is the thin indirection layer the seam rewriter (/verif/tools/seamgen)
// points go-upf at. It contains no simulation logic: the simulator installs the hooks.
// It exists only in the overlay used by /verif's checks, never in the shipped tree.
package simhook

import (
	"cmp"
	"errors"
	"net"
	"net/netip"
	"os"
	"slices"
	"sync/atomic"
	"time"
)

// ---- UDP sockets -----------------------------------------------------------------

// PacketBackend is what the simulator supplies for each listening socket.
type PacketBackend interface {
	ReadFrom(p []byte) (int, net.Addr, error)
	WriteTo(p []byte, addr net.Addr) (int, error)
	Close() error
}

// UDPConn stands in for *net.UDPConn (rule R1): same methods go-upf uses.
type UDPConn struct {
	B     PacketBackend
	Laddr *net.UDPAddr
}

func (c *UDPConn) ReadFrom(p []byte) (int, net.Addr, error)         { return c.B.ReadFrom(p) }
func (c *UDPConn) WriteTo(p []byte, a net.Addr) (int, error)        { return c.B.WriteTo(p, a) }
func (c *UDPConn) Close() error                                     { return c.B.Close() }
func (c *UDPConn) LocalAddr() net.Addr                              { return c.Laddr }
func (c *UDPConn) SetDeadline(time.Time) error                      { return nil }
func (c *UDPConn) SetReadDeadline(time.Time) error                  { return nil }
func (c *UDPConn) SetWriteDeadline(time.Time) error                 { return nil }
func (c *UDPConn) File() (*os.File, error)                          { return os.Open(os.DevNull) }
func (c *UDPConn) WriteToUDP(p []byte, a *net.UDPAddr) (int, error) { return c.B.WriteTo(p, a) }
func (c *UDPConn) ReadFromUDP(p []byte) (int, *net.UDPAddr, error) {
	n, a, err := c.B.ReadFrom(p)
	ua, _ := a.(*net.UDPAddr)
	return n, ua, err
}

var _ net.PacketConn = (*UDPConn)(nil)

// The hook table is replaced as a whole, by the simulator, before a run starts any
// goroutine, and only read afterwards. Reads are one atomic pointer load: the only
// happens-before edge a seam adds is "after the simulator installed the hooks", so the
// seams never order go-upf's goroutines with one another (which would hide data races
// from the race detector). For the same reason the seams keep no counters.
type hooks struct {
	listen  func(network string, laddr *net.UDPAddr) (PacketBackend, error)
	perm    func(site int, n int) []int
	choose  func(site int, ready []int) int
	resolve func(host string) (net.IP, error)
	skew    func() time.Duration
	ticker  func(d time.Duration)
	knobs   map[string]int
}

var cur atomic.Pointer[hooks]

func get() *hooks {
	if h := cur.Load(); h != nil {
		return h
	}
	return &hooks{}
}

func set(f func(h *hooks)) {
	h := *get()
	f(&h)
	cur.Store(&h)
}

// SetListen installs the socket factory (rule R2 routes net.ListenUDP here).
func SetListen(f func(network string, laddr *net.UDPAddr) (PacketBackend, error)) {
	set(func(h *hooks) { h.listen = f })
}

func ListenUDP(network string, laddr *net.UDPAddr) (*UDPConn, error) {
	f := get().listen
	if f == nil {
		return nil, errors.New("simhook: no listener installed")
	}
	b, err := f(network, laddr)
	if err != nil {
		return nil, err
	}
	return &UDPConn{B: b, Laddr: laddr}, nil
}

// ---- name resolution (rule R8) -----------------------------------------------------


// SetResolve installs the simulator's resolver. Host names never reach a real resolver:
// with none installed every name is "no such host".
func SetResolve(f func(host string) (net.IP, error)) {
	set(func(h *hooks) { h.resolve = f })
}

func lookup(host string) (net.IP, error) {
	f := get().resolve
	if f == nil {
		return nil, &net.DNSError{Err: "no such host", Name: host, IsNotFound: true}
	}
	return f(host)
}

func literal(host string) bool {
	if host == "" {
		return true
	}
	_, err := netip.ParseAddr(host)
	return err == nil
}

// ResolveUDPAddr is net.ResolveUDPAddr for IP literals; a host name is looked up in the
// simulator (IPv4 only, as go-upf only asks for "udp4").
func ResolveUDPAddr(network, address string) (*net.UDPAddr, error) {
	host, port, err := net.SplitHostPort(address)
	if err != nil || literal(host) {
		return net.ResolveUDPAddr(network, address)
	}
	pn, err := net.LookupPort(network, port)
	if err != nil {
		return nil, err
	}
	ip, err := lookup(host)
	if err != nil {
		return nil, err
	}
	return &net.UDPAddr{IP: ip, Port: pn}, nil
}

// ResolveIPAddr is net.ResolveIPAddr with the same split.
func ResolveIPAddr(network, address string) (*net.IPAddr, error) {
	if literal(address) {
		return net.ResolveIPAddr(network, address)
	}
	ip, err := lookup(address)
	if err != nil {
		return nil, err
	}
	return &net.IPAddr{IP: ip}, nil
}

// ---- one-shot timers (rule R9) -----------------------------------------------------

// SetTimerSkew installs the simulator's source of per-timer offsets.
func SetTimerSkew(f func() time.Duration) { set(func(h *hooks) { h.skew = f }) }

// AfterFunc is time.AfterFunc; under the simulator every timer is a few ns later than
// asked for, by an amount no other timer of the run has, so that two timers never expire
// in one simulated instant (the order of their callbacks would be the runtime's choice).
func AfterFunc(d time.Duration, f func()) *time.Timer {
	if sk := get().skew; sk != nil {
		d += sk()
	}
	return time.AfterFunc(d, f)
}

// ---- tickers (rule R10) ----------------------------------------------------------------

// SetTickerHook: the simulator is told about every ticker go-upf starts.
func SetTickerHook(f func(d time.Duration)) { set(func(h *hooks) { h.ticker = f }) }

// NewTicker is time.NewTicker.
func NewTicker(d time.Duration) *time.Ticker {
	if f := get().ticker; f != nil {
		f(d)
	}
	return time.NewTicker(d)
}

// ---- map iteration order (rule R3) -------------------------------------------------

// SetPerm installs the function that orders map iteration. perm(site, n) must return a
// permutation of 0..n-1; nil means "sorted key order".
func SetPerm(f func(site int, n int) []int) {
	set(func(h *hooks) { h.perm = f })
}

// Keys returns the keys of m in the order the simulator chose for this visit.
func Keys[K cmp.Ordered, V any](m map[K]V, site int) []K {
	ks := make([]K, 0, len(m))
	for k := range m {
		ks = append(ks, k)
	}
	slices.Sort(ks)
	if len(ks) < 2 {
		return ks
	}
	f := get().perm
	if f == nil {
		return ks
	}
	p := f(site, len(ks))
	out := make([]K, len(ks))
	for i, j := range p {
		out[i] = ks[j]
	}
	return out
}

// ---- select choice (rule R7) --------------------------------------------------------

// SetChoose installs the function that picks which ready case of a select runs.
func SetChoose(f func(site int, ready []int) int) {
	set(func(h *hooks) { h.choose = f })
}

// Choose is given the queue lengths of the channels of a receive-only select. With fewer
// than two ready it returns -1 (the runtime's select does the rest); otherwise the
// simulator picks one of the ready cases.
func Choose(site int, lens ...int) int {
	var ready []int
	for i, l := range lens {
		if l > 0 {
			ready = append(ready, i)
		}
	}
	if len(ready) < 2 {
		return -1
	}
	f := get().choose
	if f == nil {
		return -1
	}
	return f(site, ready)
}

// ---- knobs (rule R6) ---------------------------------------------------------------

// SetKnobs replaces the table of overridden constants (nil = shipped values).
func SetKnobs(k map[string]int) {
	set(func(h *hooks) { h.knobs = k })
}

// Knob returns the override for name or def (the value in the shipped source).
// go-upf reads knobs when it allocates queues, i.e. at server construction time.
func Knob(name string, def int) int {
	if v, ok := get().knobs[name]; ok {
		return v
	}
	return def
}
