//go:build verif

package verifsim

// The simulator core: one bubble, one root goroutine that owns every decision
// (DESIGN.md §2.3). go-upf's own goroutines run the shipped code.

import (
	"encoding/binary"
	"encoding/json"
	"fmt"
	"hash/fnv"
	"io"
	"net"
	"os"
	"regexp"
	"runtime"
	"sort"
	"strings"
	"sync"
	"sync/atomic"
	"testing"
	"testing/synctest"
	"time"

	nl "github.com/khirono/go-nl"
	"github.com/sirupsen/logrus"

	"github.com/free5gc/go-upf/internal/forwarder"
	"github.com/free5gc/go-upf/internal/logger"
	"github.com/free5gc/go-upf/internal/pfcp"
	"github.com/free5gc/go-upf/internal/report"
	"github.com/free5gc/go-upf/internal/simhook"
	"github.com/free5gc/go-upf/pkg/factory"
)

const (
	upfIP     = "10.0.0.1"
	upfN4     = "10.0.0.1:8805"
	gnbIPBase = "10.2.0."
)

// RunConfig: every knob of one run. A replay file carries it verbatim.
type RunConfig struct {
	Seed        uint64         `json:"seed"`
	Profile     string         `json:"profile"`
	Driver      string         `json:"driver"` // gtp5g | empty
	RetransMs   int            `json:"retrans_ms"`
	MaxRetrans  int            `json:"max_retrans"`
	NSMF        int            `json:"nsmf"`
	NSlots      int            `json:"nslots"`
	Steps       int            `json:"steps"`
	Knobs       map[string]int `json:"knobs,omitempty"`
	Interpose   bool           `json:"interpose"`
	AutoFwd     bool           `json:"auto_fwd"`    // forward interposed reports at once
	AutoAnswer  bool           `json:"auto_answer"` // SMFs answer report requests at once
	MapOrder    string         `json:"map_order"`   // sorted | seeded
	LogLevel    string         `json:"log_level"`
	TxSeqStart  uint32         `json:"tx_seq_start"`
	KernLatency int            `json:"kern_latency_ms"` // per data-plane request, 0 = none
	Faults      []string       `json:"faults,omitempty"`
	Oracles     []string       `json:"oracles,omitempty"`      // property ids whose oracles are on
	FinalStop   bool           `json:"final_stop"`             // the action list ends with an explicit stop
	PSFirst     int            `json:"ps_first_pct,omitempty"` // when both netlink clients wait: chance (percent) that the periodic one is served first (0 = 50)
	CoLoc       bool           `json:"coloc,omitempty"`     // SMF 1 sends from SMF 0's IP address, another port
	Startup     *StartupPlan   `json:"startup,omitempty"` // C20: the whole input of a start-up simulation
	DNSFlaky    int            `json:"dns_flaky_pct,omitempty"` // percent of look-ups of known names that fail (C18)
	Overtake    bool           `json:"overtake,omitempty"` // scenarios that hold the periodic server inside a tick (holdps/releaseps)
	WideIDs     bool           `json:"wide_ids,omitempty"` // the random generator's rule ids are wide values (boundaries of the field widths) instead of 1..4
	Many        int            `json:"many,omitempty"`         // the many-sessions scenario: that many sessions alive at once (Gen.fill)
	Wide        bool           `json:"wide,omitempty"`         // scenarios with sessions of tens to hundreds of URRs
	LongPeriods bool           `json:"long_periods,omitempty"` // measurement periods of minutes to days
	Accum       bool           `json:"accum,omitempty"`   // long runs with scenarios that only matter after many repetitions
	MidFwd      bool           `json:"mid_fwd,omitempty"` // notifications are handed to the server while the event loop is inside a turn
	EarlyStop   bool           `json:"early_stop,omitempty"` // C17: the stop request arrives while the PFCP server is still starting
	LogYield    int            `json:"log_yield_pct,omitempty"` // percent of go-upf's log statements that park their goroutine for a few ns (needs a debug/trace log level)
	FreePlan    bool           `json:"free_plan,omitempty"` // lock-step phase of a free-running seed: the workload favours periodic URRs
	FreeRun     bool           `json:"free_run,omitempty"`  // C17: execute the action list in free-running mode (free.go)
	FQDNMask    int            `json:"fqdn_mask,omitempty"`    // bit i: SMF i's Node ID is an FQDN, resolved through the simulator
	NoPeek      bool           `json:"no_peek,omitempty"`      // never read go-upf's internal state (race-detector runs)
}

// Violation is what a run reports.
type Violation struct {
	Property  string `json:"property"`
	Invariant string `json:"invariant"`
	Signature string `json:"signature"`
	Detail    string `json:"detail"`
	Step      int    `json:"step"`
}

type RunResult struct {
	Config      RunConfig      `json:"config"`
	Actions     []Action       `json:"actions"`
	Violation   *Violation     `json:"violation,omitempty"`
	Harness     string         `json:"harness_error,omitempty"`
	EventHash   string         `json:"event_hash"`
	Steps       int            `json:"steps"`
	SimTimeMs   int64          `json:"sim_time_ms"`
	Fired       map[string]int `json:"fired"`
	Probes      map[string]int `json:"probes"`
	NonTrivial  bool           `json:"nontrivial"`
	ActionsHash string         `json:"actions_hash"`
	States      []string       `json:"states,omitempty"`
	Sample      *Sample        `json:"sample,omitempty"`
	Trace       []string       `json:"trace,omitempty"`
}

type stopRun struct{}

type Sim struct {
	t   *testing.T
	cfg RunConfig
	res *RunResult

	t0     time.Time
	stepNo int          // root goroutine only
	stepA  atomic.Int64 // the same, for go-upf's goroutines (sockets, kernel, log)
	kick   chan struct{}

	listenGate chan struct{}
	yielders atomic.Int64 // goroutines parked in yieldHook
	yieldOn  atomic.Bool
	free     bool // free-running mode (free.go): go-upf's goroutines never take s.emu
	freeDone chan struct{}
	byAddr   map[string]*SMF
	detWG   sync.WaitGroup    // detached producers (action "detach")
	detBusy map[int64]bool    // odd instants already taken by them
	names   map[string]net.IP // the simulated resolver's zone
	kern    *Kernel
	n4      *Sock
	gtpu    *Sock

	wg       sync.WaitGroup
	drv      forwarder.Driver
	srv      *pfcp.PfcpServer
	stopped1 bool // pfcp server Stop() called
	stopped2 bool // driver Close() called
	upfDead  bool

	emu      sync.Mutex
	evHash   uint64
	evInst   time.Duration
	evAcc    uint64
	evN      int
	trace    []string
	verbose  bool
	firedM   map[string]int
	probeM   map[string]int
	permCnt  map[int]uint64
	exitMsgs []string

	rmu      sync.Mutex
	pendRep  []report.SessReport
	repTotal int

	gen   *Gen
	model *Model
	smfs  []*SMF
	dgs   map[int]*Dgram // datagrams by creating action index
	ansQ  []*UpReq       // UPF-initiated requests not yet answered by an SMF
	actNo int

	hbSeq               uint32
	armed               []KRepItem
	armedK              *KBufIntent
	inMidFwd            bool
	holdPS              bool                                // the next usage query of the periodic client will be held
	heldReq             *NLReq                              // ... this one is
	heldReg             map[time.Duration]map[RuleKey]bool // the registrations when it was made
	heldJudge           bool                                // this step's first tick is the held one
	heldAt              time.Duration                       // when it was made
	heldLastChange      time.Duration                       // end of the last step that was not a clock advance since
	heldAmbig           bool                                // some tick fell due between the two: order of service not known
	tmu                 sync.Mutex
	tickers             []tickerRec // every ticker go-upf started (rule R10)
	timerNo             atomic.Int64
	armedAns            *Action
	armedStop           int
	closeDone, waitDone chan struct{}
	tearing             bool
	c11carriers         map[string]bool
	statesSeen          map[string]bool
	faultHit            map[uint64]bool
}

func (s *Sim) since() time.Duration { return time.Since(s.t0) }

func hashStr(x string) uint64 {
	h := fnv.New64a()
	h.Write([]byte(x))
	return h.Sum64()
}

// hash derives a value from the run's seed and the arguments (splitmix64 chain).
func (s *Sim) hash(tag string, vals ...uint64) uint64 {
	x := s.cfg.Seed ^ hashStr(tag)
	mix := func(z uint64) uint64 {
		z += 0x9e3779b97f4a7c15
		z = (z ^ (z >> 30)) * 0xbf58476d1ce4e5b9
		z = (z ^ (z >> 27)) * 0x94d049bb133111eb
		return z ^ (z >> 31)
	}
	x = mix(x)
	for _, v := range vals {
		x = mix(x ^ v)
	}
	return x
}

func (s *Sim) logEvent(f string, a ...any) {
	if s.free {
		return // see free.go: no lock shared between go-upf's goroutines
	}
	line := fmt.Sprintf(f, a...)
	s.emu.Lock()
	// events of one simulated instant are concurrent: they enter the hash as a set (their
	// order in the log is whichever goroutine took the lock first), instants as a sequence
	now := s.since()
	if now != s.evInst {
		s.foldInstant()
		s.evInst = now
	}
	lh := fnv.New64a()
	lh.Write([]byte(line))
	s.evAcc += lh.Sum64()
	s.evN++
	if len(line) > 400 {
		line = line[:400] + "…"
	}
	s.trace = append(s.trace, fmt.Sprintf("[%d %v] %s", s.curStep(), s.since(), line))
	if !s.verbose && len(s.trace) > 400 {
		s.trace = s.trace[len(s.trace)-200:]
	}
	s.emu.Unlock()
}

type tickerRec struct{ at, d time.Duration }

// tickDueIn: how many ticks of the tickers go-upf ever started fall due in [a, b]? (tickers
// that were stopped since are included: the answer errs on the side of "yes").
func (s *Sim) tickDueIn(a, b time.Duration) int {
	s.tmu.Lock()
	defer s.tmu.Unlock()
	n := 0
	for _, t := range s.tickers {
		if t.d <= 0 || b < t.at+t.d {
			continue
		}
		k := (a - t.at + t.d - 1) / t.d // first lattice point >= a
		if k < 1 {
			k = 1
		}
		if last := (b - t.at) / t.d; last >= k {
			n += int(last-k) + 1 // every instant of this ticker inside the window
		}
	}
	return n
}

// foldInstant (emu held): the events gathered for the current instant enter the chain.
func (s *Sim) foldInstant() {
	if s.evN == 0 {
		return
	}
	h := fnv.New64a()
	var b [8]byte
	for _, v := range []uint64{s.evHash, uint64(s.evInst), s.evAcc, uint64(s.evN)} {
		binary.LittleEndian.PutUint64(b[:], v)
		h.Write(b[:])
	}
	s.evHash = h.Sum64()
	s.evAcc, s.evN = 0, 0
}

func (s *Sim) fired(name string, n int) {
	if s.free {
		return
	}
	s.emu.Lock()
	s.firedM[name] += n
	s.emu.Unlock()
}

func (s *Sim) probe(name string, n int) {
	if s.free {
		return
	}
	s.emu.Lock()
	s.probeM[name] += n
	s.emu.Unlock()
}

func (s *Sim) kickRoot() {
	select {
	case s.kick <- struct{}{}:
	default:
	}
}

// alias: in some profiles a sub-claim of property A is part of the profile's own
// property B (e.g. "each periodic report reaches its session once" inside C15).
func (s *Sim) alias(p string) string {
	switch s.cfg.Profile {
	case "C15":
		if p == "C10" || p == "C03" || p == "C17" {
			return "C15"
		}
	case "C17":
		// exactly-once of reports / timeouts; with injected data-plane latency a report
		// may be produced in one step and served in another, which the per-step report
		// oracle does not follow
		if p == "C09" || (p == "C10" && s.cfg.KernLatency == 0) {
			return "C17"
		}
	case "C03":
		// "registered for periodic querying with its measurement period" is observable
		// as the set of URRs each tick queries
		if p == "C15" {
			return "C03"
		}
	case "C05":
		if p == "C13" {
			return "C05" // packets of one session showing up in another
		}
	case "C14":
		if p == "C13" {
			return "C14x" // C13's own demands are not C14's
		}
	}
	return p
}

func (s *Sim) oracleOn(p string) bool {
	p = s.alias(p)
	if len(s.cfg.Oracles) == 0 {
		return true
	}
	for _, x := range s.cfg.Oracles {
		if x == p {
			return true
		}
	}
	return false
}

// violate records the first violation and ends the run.
func (s *Sim) violate(prop, inv, sig string, f string, a ...any) {
	if !s.oracleOn(prop) {
		return
	}
	prop = s.alias(prop)
	if s.res.Violation == nil {
		s.res.Violation = &Violation{Property: prop, Invariant: inv, Signature: sig, Detail: fmt.Sprintf(f, a...), Step: s.stepNo}
	}
	panic(stopRun{})
}

func (s *Sim) harnessFail(f string, a ...any) {
	if s.res.Harness == "" {
		s.res.Harness = fmt.Sprintf(f, a...)
	}
	panic(stopRun{})
}

// perm is the seed-derived map iteration order (rule R3).
func (s *Sim) curStep() int { return int(s.stepA.Load()) }

// nodeDst is where the UPF must send requests for a peer known by this Node ID.
func (s *Sim) nodeDst(node string) string {
	if ip, ok := s.names[node]; ok {
		return ip.String() + ":8805"
	}
	return node + ":8805"
}

func (s *Sim) perm(site int, n int) []int {
	p := make([]int, n)
	for i := range p {
		p[i] = i
	}
	if s.cfg.MapOrder != "seeded" {
		return p
	}
	// A pure function of (seed, site, simulated instant, size): no shared counter, no
	// lock. The seams are called from go-upf's own goroutines; a mutex here would order
	// those goroutines with one another and hide data races from the race detector.
	c := uint64(s.since())<<8 ^ uint64(n)
	for i := n - 1; i > 0; i-- {
		j := int(s.hash("perm", uint64(site), c, uint64(i)) % uint64(i+1))
		p[i], p[j] = p[j], p[i]
	}
	return p
}

// choose: which of several READY cases of a receive-only select runs (rule R7).
func (s *Sim) choose(site int, ready []int) int {
	c := uint64(s.since())<<8 ^ uint64(len(ready))<<4 ^ uint64(ready[0])
	return ready[int(s.hash("select", uint64(site), c)%uint64(len(ready)))]
}

// ---- report interposer -------------------------------------------------------------

type simHandler struct{ s *Sim }

func (h simHandler) NotifySessReport(sr report.SessReport) {
	s := h.s
	if !s.cfg.Interpose || s.free {
		s.srv.NotifySessReport(sr)
		return
	}
	s.rmu.Lock()
	s.pendRep = append(s.pendRep, sr)
	s.repTotal++
	s.rmu.Unlock()
	s.kickRoot()
}

func (h simHandler) PopBufPkt(seid uint64, pdrid uint16) ([]byte, bool) {
	return h.s.srv.PopBufPkt(seid, pdrid)
}

func (s *Sim) takeReport(i int) (report.SessReport, bool) {
	s.rmu.Lock()
	defer s.rmu.Unlock()
	if i < 0 || i >= len(s.pendRep) {
		return report.SessReport{}, false
	}
	sr := s.pendRep[i]
	s.pendRep = append(s.pendRep[:i], s.pendRep[i+1:]...)
	return sr, true
}

func (s *Sim) pendingReports() int {
	s.rmu.Lock()
	defer s.rmu.Unlock()
	return len(s.pendRep)
}

// ---- time and quiescence -------------------------------------------------------------

// bump moves the fake clock by four nanoseconds so that every quiescent interval has its
// own residue (all configured durations are whole milliseconds). Everything the lock-step
// scheduler and go-upf's timers do therefore happens at instants that are 0 modulo 4;
// detached producers (action "detach") wake at odd ones and goroutines parked at a log
// statement (yieldHook) at 2 modulo 4, so that goroutines the simulator does not order
// do not become runnable in the same instant.
func (s *Sim) bump() { time.Sleep(4 * time.Nanosecond) }

// schedPick chooses among the sockets with a request pending (names sorted: main, ps).
func (s *Sim) schedPick(n int) int {
	h := s.hash("sched", uint64(s.stepNo), uint64(s.kern.nReq))
	if n == 2 && s.cfg.PSFirst > 0 {
		if int(h%100) < s.cfg.PSFirst {
			return 1
		}
		return 0
	}
	return int(h % uint64(n))
}

// settle runs go-upf to quiescence, answering data-plane requests one at a time.
// quiescences counts the returns of synctest.Wait in settle, over all runs of the process:
// the spin watchdog of main_test.go (real time, outside the bubble) reads it.
var quiescences atomic.Int64

func (s *Sim) settle() {
	for guard := 0; ; guard++ {
		synctest.Wait()
		quiescences.Add(1)
		r := s.kern.takePending(s.schedPick)
		if r != nil {
			if err := s.kern.decode(r); err != nil {
				s.harnessFail("simkernel cannot decode a request from go-upf: %v (% x)", err, r.Raw)
			}
			if s.holdPS && s.heldReq == nil && r.Conn == "ps" && r.Op == "multi" && !s.tearing && !s.stopped1 {
				// action "holdps": the answer to this usage query is withheld until action
				// "releaseps" — the periodic server stays inside its tick meanwhile, and
				// whatever is queued for it (registration changes, further ticks) waits
				s.heldReq = r
				s.heldReg = s.model.registered()
				s.heldAt = s.since()
				s.heldLastChange = 0
				s.heldAmbig = false
				s.holdPS = false
				s.fired("dp.hold.ps", 1)
				s.logEvent("ps query held")
				continue
			}
			if s.armedStop > 0 && r.Conn == "main" {
				s.armedStop--
				if s.armedStop == 0 {
					// the shutdown goroutine of pkg/app runs Stop() then Close() without
					// waiting for the event loop: here it does so while the loop is waiting
					// for the data plane's answer to this very request
					s.stopMidTurn()
				}
			}
			if s.armedAns != nil && r.Conn == "main" {
				s.armedAns.N--
				if s.armedAns.N <= 0 {
					a := s.armedAns
					s.armedAns = nil
					s.injectAnswerMidTurn(a)
				}
			}
			if s.armed != nil && r.Conn == "main" && (r.Op == "del" || r.Op == "add-create" || r.Op == "add-update") {
				// a burst of kernel notifications lands while the event loop waits for
				// the reply to this very request
				items := s.armed
				s.armed = nil
				s.fired("dp.burst", 1)
				s.doKRepNoSettle(items)
				synctest.Wait()
			}
			if s.armedK != nil && r.Conn == "main" && (r.Op == "del" || r.Op == "add-create" || r.Op == "add-update") {
				// ... or a burst of buffered-packet notifications
				k := s.armedK
				s.armedK = nil
				s.fired("dp.burst.buffer", 1)
				seid, _ := s.resolveSEID(k.SMF, k.Slot, k.SEID)
				for i := 0; i < max(1, k.Count); i++ {
					tag := s.model.nextPktTag()
					pkt := makePayload(tag, k.Len)
					s.model.noteBufferEmitted(seid, k.PDR, k.Action, tag, pkt)
					s.kern.emitBuffer(seid, k.PDR, k.Action, pkt)
					s.logEvent("kbuf(mid-turn) seid=%#x pdr=%d act=%#x tag=%d len=%d", seid, k.PDR, k.Action, tag, len(pkt))
					synctest.Wait()
				}
			}
			if s.cfg.MidFwd && !s.tearing {
				// the notifications reach the server now, while the event loop is still
				// waiting for this reply: they pile up in its report queue
				s.inMidFwd = true
				for n := 0; s.cfg.Interpose && s.pendingReports() > 0 && n < 100; n++ {
					s.probe("report.forwarded.mid-turn", 1)
					s.forwardReport(0)
				}
				s.inMidFwd = false
			}
			// the clock moves (1 ns) before every data-plane answer, so that timers armed
			// after different data-plane calls never share an instant
			s.bump()
			synctest.Wait()
			// a data plane slower than the tick rate never lets the system go quiet: after
			// a few hundred answers in one settle the injected latency is suspended
			if guard > 120 && s.cfg.KernLatency > 0 {
				s.probe("latency.suspended", 1)
			}
			if s.cfg.KernLatency > 0 && !s.tearing && guard <= 120 && (r.Op == "add-create" || r.Op == "add-update" || r.Op == "del" || r.Op == "multi" || r.Op == "report" || r.Op == "get") {
				s.fired("dp.latency", 1)
				time.Sleep(time.Duration(s.cfg.KernLatency)*time.Millisecond + 4*time.Nanosecond)
				synctest.Wait()
			}
			s.kern.handle(r)
			continue
		}
		if s.cfg.Interpose && s.cfg.AutoFwd && s.pendingReports() > 0 {
			s.forwardReport(0)
			continue
		}
		if s.yielders.Load() > 0 && guard < 100000 {
			// a goroutine is parked at a log statement (yieldHook): the step is not over
			s.bump()
			continue
		}
		return
	}
}

// yieldHook turns go-upf's log statements into scheduling points ("buggify"): with debug
// logging on, a seed-chosen subset of them parks the calling goroutine for a few simulated
// nanoseconds, so that the other goroutines (and the simulated kernel) get to run in the
// middle of functions that have no blocking operation of their own. The lock-step
// scheduler does not end a step while anybody is parked. Parked goroutines wake at
// instants that are 2 modulo 4; the scheduler's own are 0 modulo 4, detached producers'
// are odd.
var rePointer = regexp.MustCompile(`0x[0-9a-f]{7,}|\(0x[0-9a-f]+\)`)

type yieldHook struct{ s *Sim }

func (h yieldHook) Levels() []logrus.Level {
	return []logrus.Level{logrus.ErrorLevel, logrus.WarnLevel, logrus.InfoLevel, logrus.DebugLevel, logrus.TraceLevel}
}

func (h yieldHook) Fire(e *logrus.Entry) error {
	s := h.s
	if !s.yieldOn.Load() {
		return nil
	}
	// the whole message and its fields: two goroutines logging at the same instant should
	// not be parked for the same time
	m := e.Message
	if len(e.Data) > 0 {
		ks := make([]string, 0, len(e.Data))
		for k := range e.Data {
			ks = append(ks, k)
		}
		sort.Strings(ks)
		for _, k := range ks {
			m += "|" + k + "=" + fmt.Sprint(e.Data[k])
		}
	}
	m = rePointer.ReplaceAllString(m, "PTR") // addresses differ from process to process
	now := int64(s.since())
	x := s.hash("yield", hashStr(m), uint64(now))
	if int(x%100) >= s.cfg.LogYield {
		return nil
	}
	d := int64(2 + 4*((x>>8)%80))
	for (now+d)%4 != 2 {
		d++
	}
	if strings.HasPrefix(e.Message, "ticker[") {
		// a ticker goroutine between taking a tick and posting it: nothing the step's
		// oracles look at depends on it, so the scheduler does not wait for it — the next
		// action may be delivered, and served, while it is parked (up to 4 µs: longer than
		// an event-loop turn that is itself parked here and there)
		d = int64(2 + 4*((x>>8)%1000))
		for (now+d)%4 != 2 {
			d++
		}
		time.Sleep(time.Duration(d))
		return nil
	}
	s.yielders.Add(1)
	time.Sleep(time.Duration(d))
	s.yielders.Add(-1)
	return nil
}

func (s *Sim) forwardReport(i int) {
	sr, ok := s.takeReport(i)
	if !ok {
		return
	}
	if s.stopped1 || s.upfDead {
		s.probe("report.after.stop", 1)
		if s.oracleOn("C17") && s.cfg.Profile == "C17" {
			// the producer would call the server now, exactly as in production
			s.srv.NotifySessReport(sr)
		}
		return
	}
	s.bump()
	s.logEvent("report fwd seid=%#x n=%d", sr.SEID, len(sr.Reports))
	if c := s.model.curCtx; s.inMidFwd && c != nil && c.Kind == "deliver" {
		// handed over while the event loop is inside the turn of this step's message: it
		// is served after that turn, so the model sees it after the message's effects
		c.lateFwd = append(c.lateFwd, sr)
	} else {
		s.model.noteReportForwarded(sr)
	}
	// the producer is a goroutine of its own, as in production (netlink mux, periodic
	// server): whatever it touches besides the report queue is unordered with the event
	// loop's accesses, which is what the race detector must be able to see
	done := make(chan struct{})
	go func() {
		s.srv.NotifySessReport(sr)
		close(done)
	}()
	synctest.Wait()
	select {
	case <-done:
	default:
		s.probe("report.producer.blocked", 1)
	}
}

// advance moves the fake clock by d, waking up whenever go-upf needs the kernel.
func (s *Sim) advance(d time.Duration) {
	deadline := time.Now().Add(d)
	held := s.heldReq != nil
	for {
		s.settle()
		if !held && s.heldReq != nil {
			break // "holdps": the clock stops where the periodic server got stuck
		}
		rem := time.Until(deadline)
		if rem <= 0 {
			break
		}
		tm := time.NewTimer(rem)
		select {
		case <-s.kick:
			tm.Stop()
			s.bump()
		case <-tm.C:
		}
	}
	s.bump()
	s.settle()
}

// ---- boot / teardown -----------------------------------------------------------------

type fatalHook struct{ s *Sim }

func (h fatalHook) Levels() []logrus.Level {
	return []logrus.Level{logrus.FatalLevel, logrus.PanicLevel}
}
func (h fatalHook) Fire(e *logrus.Entry) error {
	h.s.emu.Lock()
	h.s.exitMsgs = append(h.s.exitMsgs, e.Message)
	h.s.emu.Unlock()
	return nil
}

func (s *Sim) boot() {
	s.installSeams()
	s.bootRest()
}

// installSeams points every seam at this simulation.
func (s *Sim) installSeams() {
	lvl, err := logrus.ParseLevel(s.cfg.LogLevel)
	if err != nil {
		lvl = logrus.ErrorLevel
	}
	logger.Log.SetLevel(lvl)
	logger.Log.SetOutput(io.Discard)
	if os.Getenv("VERIF_UPFLOG") != "" {
		logger.Log.SetOutput(os.Stderr) // triage aid: go-upf's own log
	}
	logger.Log.ReplaceHooks(logrus.LevelHooks{})
	logger.Log.AddHook(fatalHook{s})
	if s.cfg.LogYield > 0 && !s.cfg.FreeRun {
		logger.Log.AddHook(yieldHook{s})
	}
	logger.Log.ExitFunc = func(int) {
		s.emu.Lock()
		s.upfDead = true
		s.emu.Unlock()
	}

	nl.SetSimKernel(s.kern)
	simhook.SetPerm(s.perm)
	simhook.SetKnobs(s.cfg.Knobs)
	simhook.SetChoose(s.choose)
	// transaction timers started in one instant (several requests sent in one event-loop
	// turn) would expire in one instant: 4 ns apart instead, in the order they were started
	// (the counter is only touched by go-upf's callers of AfterFunc: the event loop)
	s.tickers = nil
	simhook.SetTickerHook(func(d time.Duration) {
		s.tmu.Lock()
		s.tickers = append(s.tickers, tickerRec{s.since(), d})
		s.tmu.Unlock()
	})
	s.timerNo.Store(0)
	simhook.SetTimerSkew(func() time.Duration { return time.Duration(s.timerNo.Add(1)%(1<<15)) * 4 })
	simhook.SetResolve(func(host string) (net.IP, error) {
		s.probe("resolver.lookup", 1)
		if s.cfg.DNSFlaky > 0 && int(s.hash("dns", hashStr(host), uint64(s.since()))%100) < s.cfg.DNSFlaky {
			// the resolver has a bad moment (fault kind "dns")
			s.fired("dns.fail", 1)
			return nil, &net.DNSError{Err: "server misbehaving", Name: host, IsTemporary: true}
		}
		if ip, ok := s.names[host]; ok {
			return ip, nil
		}
		s.probe("resolver.nxdomain", 1)
		return nil, &net.DNSError{Err: "no such host", Name: host, IsNotFound: true}
	})
	simhook.SetListen(func(network string, laddr *net.UDPAddr) (simhook.PacketBackend, error) {
		switch laddr.Port {
		case factory.UpfPfcpDefaultPort:
			if s.listenGate != nil {
				<-s.listenGate // the server is "still starting" until the simulator says so
			}
			return s.n4, nil
		case factory.UpfGtpDefaultPort:
			return s.gtpu, nil
		}
		return nil, fmt.Errorf("simnet: unexpected listen %v", laddr)
	})
	nl.AfterCloseYield = nil
}

func (s *Sim) bootRest() {
	cfg := &factory.Config{
		Version: "1.0.3",
		Pfcp: &factory.Pfcp{
			Addr:           upfIP,
			NodeID:         upfIP,
			RetransTimeout: time.Duration(s.cfg.RetransMs) * time.Millisecond,
			MaxRetrans:     uint8(s.cfg.MaxRetrans),
		},
		Gtpu: &factory.Gtpu{
			Forwarder: "gtp5g",
			IfList:    []factory.IfInfo{{Addr: upfIP, Type: "N3", MTU: 1400}},
		},
		DnnList: []factory.DnnList{{Dnn: "internet", Cidr: "10.60.0.0/16"}},
		Logger:  &factory.Logger{Level: s.cfg.LogLevel},
	}

	if s.cfg.Driver == "empty" {
		s.drv = forwarder.Empty{}
	} else {
		done := make(chan struct{})
		var derr error
		go func() {
			s.drv, derr = forwarder.NewDriver(&s.wg, cfg)
			close(done)
		}()
		for {
			s.settle()
			select {
			case <-done:
			default:
				s.harnessFail("driver start-up is blocked with no data-plane request pending")
			}
			break
		}
		if derr != nil {
			s.harnessFail("driver start-up failed: %v", derr)
		}
	}
	s.srv = pfcp.NewPfcpServer(cfg, s.drv)
	if s.cfg.TxSeqStart != 0 {
		s.srv.VerifSetTxSeq(s.cfg.TxSeqStart)
	}
	s.drv.HandleReport(simHandler{s})
	if s.cfg.EarlyStop {
		s.earlyStop()
		return
	}
	s.srv.Start(&s.wg)
	s.settle()
	s.logEvent("booted driver=%s", s.cfg.Driver)
	s.yieldOn.Store(true)
}

func (s *Sim) peek() pfcp.VerifState {
	if s.cfg.NoPeek {
		return pfcp.VerifState{}
	}
	return s.srv.VerifState()
}

func (s *Sim) perioGroups() map[time.Duration]int {
	if s.cfg.NoPeek {
		return nil
	}
	if g, ok := s.drv.(*forwarder.Gtp5g); ok && g.VerifPerio() != nil {
		return g.VerifPerio().VerifGroups()
	}
	return nil
}

// stop1 = PfcpServer.Stop(); stop2 = Driver.Close() — the order pkg/app uses.
func (s *Sim) stop1() {
	if s.stopped1 {
		return
	}
	s.stopped1 = true
	s.logEvent("stop1")
	s.checkTxDone()
	pending := 0
	for _, rx := range s.model.rx {
		if s.since()-rx.T0 < s.model.window() {
			pending++
		}
	}
	for _, u := range s.model.ups {
		if !u.Answered && !s.model.abandoned(u, s.since()) {
			pending++
		}
	}
	if pending > 0 {
		s.probe("stop.with.pending", 1)
	}
	// Stop() may wait for the event loop to finish its turn: run it like the shutdown
	// goroutine of pkg/app does, and keep the data plane answering meanwhile
	done := make(chan struct{})
	go func() {
		s.srv.Stop()
		close(done)
	}()
	s.settle()
	select {
	case <-done:
	default:
		s.shutdownStuck("PfcpServer.Stop() does not return")
	}
}

func (s *Sim) stop2() {
	if s.stopped2 {
		return
	}
	s.stopped2 = true
	s.logEvent("stop2")
	done := make(chan struct{})
	go func() {
		s.drv.Close()
		close(done)
	}()
	s.settle()
	select {
	case <-done:
	default:
		s.shutdownStuck("Driver.Close() does not return")
		return
	}
	wdone := make(chan struct{})
	go func() {
		s.wg.Wait()
		close(wdone)
	}()
	s.settle()
	if s.cfg.LogYield > 0 {
		// a ticker goroutine may be parked at its log statement (yieldHook) for a few
		// microseconds yet: let them pass before judging
		time.Sleep(8 * time.Microsecond)
		s.settle()
	}
	select {
	case <-wdone:
	default:
		s.shutdownStuck("goroutines still running after Stop and Close")
	}
}

// earlyStop: the stop request (SIGTERM) arrives while the PFCP server is still starting:
// its goroutine exists but has not opened its socket yet. pkg/app would then run
// Stop(); Close() and wait for the wait group, exactly as at any other moment.
func (s *Sim) earlyStop() {
	s.listenGate = make(chan struct{})
	s.srv.Start(&s.wg)
	synctest.Wait() // the server goroutine is inside ListenUDP
	s.stopped1, s.stopped2 = true, true
	s.logEvent("stop (while starting)")
	s.probe("stop.while-starting", 1)
	s.closeDone = make(chan struct{})
	s.waitDone = make(chan struct{})
	go func() {
		s.srv.Stop()
		s.drv.Close()
		close(s.closeDone)
		s.wg.Wait()
		close(s.waitDone)
	}()
	synctest.Wait()
	close(s.listenGate) // the socket comes into being now
	s.settle()
}

// stopMidTurn: Stop() and Close() issued while the event loop is inside a turn.
func (s *Sim) stopMidTurn() {
	if s.stopped1 || s.stopped2 {
		return
	}
	s.stopped1, s.stopped2 = true, true
	s.logEvent("stop (mid-turn)")
	s.probe("stop.midturn", 1)
	s.closeDone = make(chan struct{})
	s.waitDone = make(chan struct{})
	go func() {
		s.srv.Stop()
		s.drv.Close()
		close(s.closeDone)
		s.wg.Wait()
		close(s.waitDone)
	}()
}

// checkMidTurnStop: after the run, everything must have terminated.
func (s *Sim) checkMidTurnStop() {
	if s.closeDone == nil {
		return
	}
	s.settle()
	when := "while the event loop was waiting for a data-plane answer"
	if s.cfg.EarlyStop {
		when = "while the PFCP server was still starting (its goroutine had not opened the socket yet)"
	}
	select {
	case <-s.closeDone:
	default:
		s.shutdownStuck("Stop(); Close() does not return: issued " + when)
		return
	}
	select {
	case <-s.waitDone:
	default:
		s.shutdownStuck("goroutines still running after Stop and Close issued " + when)
	}
}

func (s *Sim) shutdownStuck(what string) {
	dump := bubbleDump()
	if s.cfg.Profile == "C18" && s.oracleOn("C18") {
		// the progress probe was answered, yet the event loop is blocked for good now
		s.violate("C18", "progress", "wedge:"+wedgeSignature(dump), "%s: the event loop no longer makes progress; goroutines:\n%s", what, dump)
	}
	s.violate("C17", "stop.terminates", "stuck:"+stuckSignature(dump), "%s\n%s", what, dump)
}

// currentBubble returns "synctest bubble N" of the calling goroutine.
func currentBubble() string {
	buf := make([]byte, 256)
	n := runtime.Stack(buf, false)
	hdr := strings.SplitN(string(buf[:n]), "\n", 2)[0]
	if i := strings.Index(hdr, "synctest bubble "); i >= 0 {
		j := strings.IndexAny(hdr[i:], "]\n")
		if j > 0 {
			return hdr[i : i+j]
		}
	}
	return ""
}

// leakedUPF looks, from outside, at the goroutines a finished bubble left behind and
// names those that sit in go-upf code (innermost go-upf frame each, sorted, unique).
func leakedUPF(bubble string) (string, string) {
	if bubble == "" {
		return "", ""
	}
	buf := make([]byte, 4<<20)
	n := runtime.Stack(buf, true)
	set := map[string]bool{}
	var keep []string
	for _, g := range strings.Split(string(buf[:n]), "\n\n") {
		hdr := strings.SplitN(g, "\n", 2)[0]
		if !strings.Contains(hdr, bubble+"]") {
			continue
		}
		for _, l := range strings.Split(g, "\n")[1:] {
			if strings.HasPrefix(l, "\t") || strings.HasPrefix(l, "created by") {
				continue
			}
			if strings.Contains(l, "/verifsim.") || strings.Contains(l, "/simhook.") {
				break // a harness goroutine
			}
			if strings.Contains(l, "free5gc/go-upf/internal/") || strings.Contains(l, "khirono/go-nl.") {
				if i := strings.LastIndex(l, "("); i > 0 {
					l = l[:i]
				}
				set[l[strings.LastIndex(l, "/")+1:]] = true
				keep = append(keep, g)
				break
			}
		}
	}
	var names []string
	for k := range set {
		names = append(names, k)
	}
	sort.Strings(names)
	if len(keep) > 6 {
		keep = keep[:6]
	}
	return strings.Join(names, "|"), strings.Join(keep, "\n\n")
}

// bubbleDump returns the stacks of go-upf goroutines (everything but the caller and
// runtime/testing helpers).
func bubbleDump() string {
	buf := make([]byte, 4<<20)
	n := runtime.Stack(buf, true)
	gs := strings.Split(string(buf[:n]), "\n\n")
	// only the current bubble: earlier (wedged) runs of this process left goroutines behind
	mine := ""
	for _, g := range gs {
		if strings.Contains(g, "verifsim.bubbleDump") {
			if i := strings.Index(g, "synctest bubble "); i >= 0 {
				j := strings.IndexAny(g[i:], "]\n")
				mine = g[i : i+j]
			}
		}
	}
	var keep []string
	for _, g := range gs {
		hdr := g
		if i := strings.Index(g, "\n"); i >= 0 {
			hdr = g[:i]
		}
		if mine == "" || !strings.Contains(hdr, mine+"]") {
			continue
		}
		if strings.Contains(g, "verifsim.bubbleDump") || strings.Contains(g, "testing/synctest.testingSynctestTest") || strings.Contains(g, "internal/synctest.Run") {
			continue
		}
		keep = append(keep, g)
	}
	return strings.Join(keep, "\n\n")
}

// classifyStuck recognises a known shape of mutual blocking in a goroutine dump.
func classifyStuck(dump string) string {
	serveInStop := false
	tickerSending := false
	for _, g := range strings.Split(dump, "\n\n") {
		if strings.Contains(g, "perio.(*PERIOGroup).stopTicker") && strings.Contains(g, "perio.(*Server).Serve") {
			serveInStop = true
		}
		if strings.Contains(g, "perio.(*PERIOGroup).newTicker.func1") && strings.Contains(g, "[chan send") {
			tickerSending = true
		}
	}
	if serveInStop && tickerSending {
		// the periodic server waits for a ticker goroutine to take its stop request while
		// that goroutine waits to put a tick into the full event queue only the server drains
		return "perio>ticker-stop-handshake|ticker>perio-event-queue"
	}
	return ""
}

func stuckSignature(dump string) string {
	if c := classifyStuck(dump); c != "" {
		return c
	}
	var fns []string
	for _, g := range strings.Split(dump, "\n\n") {
		lines := strings.Split(g, "\n")
		for _, l := range lines[1:] {
			if strings.HasPrefix(l, "\t") || strings.HasPrefix(l, "runtime.") || strings.HasPrefix(l, "created by") {
				continue
			}
			if i := strings.LastIndex(l, "("); i > 0 {
				l = l[:i]
			}
			if strings.Contains(l, "go-upf") || strings.Contains(l, "go-nl") {
				fns = append(fns, l[strings.LastIndex(l, "/")+1:])
				break
			}
		}
	}
	// the set of places, not how many goroutines wait in each
	sort.Strings(fns)
	var uniq []string
	for i, f := range fns {
		if i == 0 || f != fns[i-1] {
			uniq = append(uniq, f)
		}
	}
	return strings.Join(uniq, "|")
}

// ---- the run ---------------------------------------------------------------------------

// Run executes one simulated run inside a fresh bubble.
func Run(t *testing.T, cfg RunConfig, actions []Action, verbose bool) *RunResult {
	if cfg.FreeRun && actions == nil {
		// phase A: the action list comes from a lock-step run of the same seed (which is
		// judged like any other C17 run); phase B executes that list free-running
		gcfg := cfg
		gcfg.FreeRun = false
		gcfg.FreePlan = true
		gres := Run(t, gcfg, nil, verbose)
		if gres.Violation != nil || gres.Harness != "" {
			return gres
		}
		actions = gres.Actions
		if actions == nil {
			actions = []Action{}
		}
		res := Run(t, cfg, actions, verbose)
		for k, v := range gres.Probes {
			res.Probes[k] += v
		}
		for k, v := range gres.Fired {
			res.Fired[k] += v
		}
		res.SimTimeMs += gres.SimTimeMs
		return res
	}
	res := &RunResult{Config: cfg, Fired: map[string]int{}, Probes: map[string]int{}}
	bubble := ""
	if verbose {
		cb, _ := json.Marshal(cfg)
		fmt.Printf("CFG %s\n", cb)
		if cfg.FreeRun {
			for _, a := range actions {
				ab, _ := json.Marshal(a)
				fmt.Printf("ACT %s\n", ab)
			}
		}
	}
	func() {
		defer func() {
			if p := recover(); p != nil {
				msg := fmt.Sprint(p)
				if strings.Contains(msg, "deadlock: main bubble goroutine has exited") {
					// goroutines left behind: reported by the run itself where it matters
					if res.Violation == nil && res.Harness == "" && cfg.Profile == "C17" {
						// goroutines of go-upf that outlive Stop(), Close() and the wait group
						if sig, dump := leakedUPF(bubble); sig != "" {
							res.Violation = &Violation{Property: "C17", Invariant: "stop.no-leak", Signature: "leak:" + sig,
								Detail: "after Stop(), Close() and the server's wait group returned, goroutines of go-upf are still blocked:\n" + dump}
						}
					}
					if res.Violation == nil && res.Harness == "" {
						res.Harness = "bubble ended with blocked goroutines: " + msg
						if verbose {
							buf := make([]byte, 4<<20)
							n := runtime.Stack(buf, true)
							for _, g := range strings.Split(string(buf[:n]), "\n\n") {
								if strings.Contains(strings.SplitN(g, "\n", 2)[0], "synctest bubble") {
									fmt.Fprintln(os.Stderr, g+"\n")
								}
							}
						}
					}
					return
				}
				panic(p)
			}
		}()
		synctest.Test(t, func(t *testing.T) {
			bubble = currentBubble()
			s := &Sim{
				t: t, cfg: cfg, res: res, t0: time.Now(), kick: make(chan struct{}, 1),
				firedM: res.Fired, probeM: res.Probes, permCnt: map[int]uint64{}, verbose: verbose,
				dgs: map[int]*Dgram{}, names: map[string]net.IP{}, detBusy: map[int64]bool{}, byAddr: map[string]*SMF{},
			}
			s.kern = newKernel(s)
			s.n4 = newSock(s, "n4")
			s.gtpu = newSock(s, "gtpu")
			s.model = newModel(s)
			s.gen = newGen(s)
			if cfg.Profile == "C20" {
				res.Actions = []Action{}
				s.runStartup()
				// res.NonTrivial is set by the run itself
			} else if cfg.FreeRun {
				res.Actions = actions
				s.runFree(actions)
				res.NonTrivial = s.probeM["free.sends"] >= 3
			} else {
				s.runBody(actions)
				res.NonTrivial = s.nontrivial()
			}
			s.emu.Lock()
			s.foldInstant()
			s.emu.Unlock()
			res.EventHash = fmt.Sprintf("%016x", s.evHash)
			if !cfg.FreeRun {
				res.Steps = s.stepNo
			}
			res.SimTimeMs = s.since().Milliseconds()
			if verbose || res.Violation != nil || res.Harness != "" {
				res.Trace = s.trace
			}
		})
	}()
	return res
}

func (s *Sim) runBody(actions []Action) {
	defer func() {
		if p := recover(); p != nil {
			if _, ok := p.(stopRun); !ok {
				panic(p)
			}
		}
		// leave the bubble clean whatever happened
		s.teardown()
	}()
	s.boot()
	s.setupSMFs()
	if actions != nil {
		for i := range actions {
			s.step(actions[i])
			if s.upfDead {
				break
			}
		}
	} else {
		for i := 0; i < s.cfg.Steps; i++ {
			a, ok := s.gen.next()
			if !ok {
				break
			}
			s.step(a)
			if s.upfDead {
				break
			}
		}
	}
	s.releasePS()
	s.finalChecks()
}

// releasePS answers the usage query held by "holdps" (a step of its own).
func (s *Sim) releasePS() {
	s.holdPS = false
	if s.heldReq == nil || s.upfDead {
		return
	}
	if s.heldLastChange > 0 {
		// one tick is the held one; any other that fell due between then and the end of the
		// last registration change was queued somewhere in between: not judged
		// (the query was seen a few ns after its tick fell due: one clock bump per hand-over)
		if s.tickDueIn(s.heldAt-64, s.heldLastChange) != 1 {
			s.heldAmbig = true
			s.probe("holdps.ambiguous", 1)
		} else {
			s.probe("holdps.judged", 1)
		}
	}
	s.mstep("releaseps", nil, func() {
		r := s.heldReq
		s.heldReq = nil
		s.heldJudge = true
		s.bump()
		s.kern.handle(r)
		s.settle()
	})
	s.heldJudge = false
	s.heldAmbig = false
	s.heldReg = nil
}

func (s *Sim) teardown() {
	defer func() {
		if p := recover(); p != nil {
			if _, ok := p.(stopRun); !ok {
				fmt.Fprintf(os.Stderr, "teardown panic: %v\n", p)
			}
		}
	}()
	if s.srv == nil {
		return
	}
	s.tearing = true
	s.yieldOn.Store(false)
	s.armed = nil
	s.armedAns = nil
	// drop what the simulator still holds so that nothing is delivered during shutdown
	s.rmu.Lock()
	s.pendRep = nil
	s.rmu.Unlock()
	if !s.stopped1 {
		s.stop1()
	}
	if !s.stopped2 {
		s.stop2()
	}
	s.checkMidTurnStop()
	// detached producers still asleep hand their notification to a stopped server
	s.detWG.Wait()
}
