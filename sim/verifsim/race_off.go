//go:build verif && !race

package verifsim

const raceBuild = false
