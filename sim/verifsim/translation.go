//go:build verif

package verifsim

// C02 / C03: every ADD request the data plane receives is compared, attribute by
// attribute, with the tree derived independently from the SMF's intent.

import (
	"bytes"
	"fmt"
	"strings"
	"time"
)

func allZero(b []byte) bool {
	for _, c := range b {
		if c != 0 {
			return false
		}
	}
	return true
}

// matchAttrs compares expected and actual attribute lists: order-insensitive between
// different types, order-preserving among attributes of one type.
func matchAttrs(exp, act []Attr, wild map[uint16]bool, path string) error {
	et := map[uint16][]Attr{}
	at := map[uint16][]Attr{}
	var order []uint16
	for _, a := range exp {
		if _, ok := et[a.Type]; !ok {
			order = append(order, a.Type)
		}
		et[a.Type] = append(et[a.Type], a)
	}
	for _, a := range act {
		if wild[a.Type] {
			continue
		}
		at[a.Type] = append(at[a.Type], a)
	}
	for t, l := range at {
		if _, ok := et[t]; !ok {
			return fmt.Errorf("%s: unexpected attribute %s", path, l[0])
		}
	}
	for _, t := range order {
		e, a := et[t], at[t]
		if len(a) < len(e) {
			// a nested attribute with nothing inside carries no content: optional
			var ne []Attr
			for _, x := range e {
				if !(x.Nested && len(x.Kids) == 0) {
					ne = append(ne, x)
				}
			}
			if len(ne) == len(a) {
				e = ne
			}
		}
		if len(e) != len(a) {
			return fmt.Errorf("%s: attribute %d occurs %d time(s), expected %d", path, t, len(a), len(e))
		}
		for i := range e {
			p := fmt.Sprintf("%s/%d", path, t)
			if len(e) > 1 {
				p = fmt.Sprintf("%s/%d[%d]", path, t, i)
			}
			if e[i].Nested {
				if !a[i].Nested {
					return fmt.Errorf("%s: expected a nested attribute, got %s", p, a[i])
				}
				if err := matchAttrs(e[i].Kids, a[i].Kids, nil, p); err != nil {
					return err
				}
				continue
			}
			if a[i].Nested {
				return fmt.Errorf("%s: unexpected nested attribute", p)
			}
			if e[i].Data == nil {
				continue // presence only
			}
			ad := a[i].Data
			if len(e[i].Data) == 4 && len(ad) == 16 && allZero(e[i].Data) && allZero(ad) {
				continue // "any" may be written as the 16-byte zero address
			}
			if !bytes.Equal(e[i].Data, ad) {
				return fmt.Errorf("%s: value %x, expected %x", p, ad, e[i].Data)
			}
		}
	}
	return nil
}

var idWidth = map[string]int{"pdr": 2, "far": 4, "qer": 4, "urr": 4, "bar": 1}

func propOfKind(kind string) string {
	if kind == "pdr" || kind == "far" {
		return "C02"
	}
	return "C03"
}

func (s *Sim) checkTranslation(ctx *StepCtx) {
	if !s.oracleOn("C02") && !s.oracleOn("C03") {
		return
	}
	in := ctx.Dg.Intent
	x := ctx.Target
	if x == nil || (in.T != "est" && in.T != "mod") {
		return
	}
	type slotKey struct {
		ref RuleRef
		upd bool
	}
	want := map[slotKey][]*RuleIntent{}
	// a URR whose removal the data plane was made to refuse is out of step between go-upf
	// and the data plane from then on: not judged
	skip := func(ref RuleRef) bool {
		return ref.Kind == "urr" && s.model.delFaulted[RuleKey{"urr", x.UP, uint64(ref.ID)}]
	}
	for i := range in.Create {
		k := slotKey{in.Create[i].ref(), false}
		if skip(k.ref) {
			continue
		}
		want[k] = append(want[k], &in.Create[i])
	}
	for i := range in.Update {
		k := slotKey{in.Update[i].ref(), true}
		if skip(k.ref) {
			continue
		}
		want[k] = append(want[k], &in.Update[i])
	}
	seen := map[slotKey]int{}
	for _, r := range ctx.Reqs {
		if r.Conn != "main" || (r.Op != "add-create" && r.Op != "add-update") {
			continue
		}
		if r.Key.Kind == "urr" && s.model.delFaulted[r.Key] {
			continue
		}
		kind := r.Key.Kind
		prop := propOfKind(kind)
		k := slotKey{RuleRef{kind, uint32(r.Key.ID)}, r.Op == "add-update"}
		if r.Key.SEID != x.UP {
			s.violate(prop, "xlate.session", "xlate:wrong-seid:"+kind, "%s for %s while translating a message for session %#x", r.Op, r.Key, x.UP)
		}
		cands := want[k]
		n := seen[k]
		seen[k]++
		if n >= len(cands) {
			s.violate(prop, "xlate.requested", "xlate:unrequested:"+kind,
				"data plane received %s %s but the message has no matching %s IE (attrs %s)", r.Op, r.Key, kind, attrsString(r.Attrs))
			continue
		}
		ri := cands[n]
		// id / seid / link attributes
		ida, _ := findAttr(r.Attrs, 3)
		if len(ida.Data) != idWidth[kind] || ida.u64() != uint64(ri.ID) {
			s.violate(prop, "xlate.id", "xlate:id:"+kind, "%s %s: id attribute %x, expected %d in %d octet(s)", r.Op, r.Key, ida.Data, ri.ID, idWidth[kind])
		}
		sa, ok := findAttr(r.Attrs, seidAttrOf[kind])
		if !ok || len(sa.Data) != 8 || sa.u64() != x.UP {
			s.violate(prop, "xlate.seid", "xlate:seid:"+kind, "%s %s: SEID attribute %x, expected %#x", r.Op, r.Key, sa.Data, x.UP)
		}
		if la, ok := findAttr(r.Attrs, aLink); !ok || la.u64() != 7 {
			s.violate(prop, "xlate.link", "xlate:link:"+kind, "%s %s: link attribute %x", r.Op, r.Key, la.Data)
		}
		exp, wild := ri.expectAttrs(k.upd)
		if err := matchAttrs(exp, stripIDs(kind, r.Attrs), wild, kind); err != nil {
			field := err.Error()
			sig := "xlate:content:" + kind + ":" + attrPath(field)
			s.violate(prop, "xlate.content", sig, "%s %s does not carry the IE's content: %v\n  expected: %s\n  actual:   %s\n  flow descriptions: %s",
				r.Op, r.Key, err, canonAttrs(exp), canonAttrs(stripIDs(kind, r.Attrs)), fdTexts(ri))
		}
		s.coverXlate(ri, k.upd)
	}
	// every Create / Update IE for a rule in the right state reached the data plane once
	if s.cfg.Profile == "C02" || s.cfg.Profile == "C03" {
		for k, cands := range want {
			prop := propOfKind(k.ref.Kind)
			if !s.oracleOn(prop) {
				continue
			}
			key := RuleKey{k.ref.Kind, x.UP, uint64(k.ref.ID)}
			existed := ctx.preHas(key)
			if k.upd && !existed {
				continue // update of a rule that does not exist: not for the data plane
			}
			if seen[k] != len(cands) {
				s.violate(prop, "xlate.handed", "xlate:missing:"+k.ref.Kind,
					"%d %s IE(s) for %s %d in the message, but the data plane received %d request(s)", len(cands), map[bool]string{false: "Create", true: "Update"}[k.upd], k.ref.Kind, k.ref.ID, seen[k])
			}
		}
	}
}

func (ctx *StepCtx) preHas(k RuleKey) bool {
	p := ctx.preProj[k.SEID]
	return p != "" && bytes.Contains([]byte(p), []byte(k.String()+"{"))
}

// attrPath: the first two components of the attribute path in a mismatch message,
// without occurrence indexes ("pdr/5/3[1]/1/4: ..." -> "pdr/5").
func attrPath(e string) string {
	for i, c := range e {
		if c == ':' {
			e = e[:i]
			break
		}
	}
	parts := strings.Split(e, "/")
	if len(parts) > 2 {
		parts = parts[:2]
	}
	for i, p := range parts {
		if j := strings.Index(p, "["); j >= 0 {
			parts[i] = p[:j]
		}
	}
	return strings.Join(parts, "/")
}

func fdTexts(r *RuleIntent) []string {
	var out []string
	for _, s := range r.SDFs {
		if s.FD != nil {
			out = append(out, s.FD.text())
		}
	}
	return out
}

func (s *Sim) coverXlate(r *RuleIntent, upd bool) {
	switch r.Kind {
	case "pdr":
		if r.SrcIf != nil && *r.SrcIf == 0 && len(r.SDFs) >= 2 {
			s.probe("c02.uplink.multi-sdf", 1)
		}
	case "far":
		if upd {
			s.probe("c02.far.update", 1)
		}
	case "qer":
		for _, p := range []*[2]uint64{r.MBR, r.GBR} {
			if p != nil && (p[0] >= 1<<32 || p[1] >= 1<<32) {
				s.probe("c03.rate.ge32bit", 1)
			}
		}
	case "urr":
		if r.perio() {
			s.probe("c03.perio.registered", 1)
		} else if !upd {
			s.probe("c03.nonperio", 1)
		}
	}
}

// expectedPerio: period -> number of (session, URR) pairs that must be registered.
func (m *Model) expectedPerio() map[time.Duration]int {
	out := map[time.Duration]int{}
	for _, x := range m.sess {
		for _, u := range x.URR {
			if u.Perio && u.PeriodS > 0 {
				out[time.Duration(u.PeriodS)*time.Second]++
			}
		}
	}
	return out
}

// checkPerioRegistration: C03, second sentence (fault-free population only).
func (s *Sim) checkPerioRegistration(ctx *StepCtx) {
	prop := "C03"
	if s.cfg.Profile == "C05" {
		// the periodic registrations of the other sessions are part of "every other
		// session is untouched": judged with the same comparison under C05's name
		prop = "C05"
	}
	if !(s.oracleOn(prop) && (s.cfg.Profile == "C03" || s.cfg.Profile == "C15" || s.cfg.Profile == "C05")) || s.model.perioTaint || len(s.cfg.Faults) > 0 || s.firedM["dp.reject"]+s.firedM["dp.latefail"]+s.firedM["dp.empty"] > 0 {
		return
	}
	if s.heldReq != nil {
		return // the periodic server is inside a tick (holdps): what is queued for it waits
	}
	got := s.perioGroups()
	want := s.model.expectedPerio()
	for p, n := range want {
		if got[p] != n {
			s.violate(prop, "perio.registered", "perio:registration", "period %v: %d URR(s) registered for periodic querying, expected %d (all: got %v want %v)", p, got[p], n, got, want)
		}
	}
	for p, n := range got {
		if want[p] == 0 && n > 0 {
			s.violate(prop, "perio.not-registered", "perio:spurious-registration", "period %v: %d URR(s) registered although none has the periodic trigger (got %v want %v)", p, n, got, want)
		}
	}
}
