//go:build verif

package verifsim

// Gen: the seeded generator of actions. It may look at the reference model (never at
// the UPF) to bias its choices; what it emits is an explicit, self-contained action.

import (
	"math/rand/v2"
)

type Gen struct {
	s   *Sim
	rng *rand.Rand
	n   int
	cp  uint64
}

func newGen(s *Sim) *Gen {
	return &Gen{s: s, rng: rand.New(rand.NewPCG(s.cfg.Seed, 0x5eed)), cp: 0x100}
}

func (g *Gen) intn(n int) int { return g.rng.IntN(n) }
func (g *Gen) chance(p float64) bool { return g.rng.Float64() < p }

func (g *Gen) seq(m *SMF) uint32 {
	v := m.Seq
	m.Seq++
	return v
}

func u8p(v uint8) *uint8    { return &v }
func u16p(v uint16) *uint16 { return &v }
func u32p(v uint32) *uint32 { return &v }

func (g *Gen) simpleRules() []RuleIntent {
	far := RuleIntent{Kind: "far", ID: 1, Action: u16p(2), ActionLen: 1}
	pdr := RuleIntent{Kind: "pdr", ID: 1, Prec: u32p(100), SrcIf: u8p(1), FARID: u32p(1)}
	return []RuleIntent{far, pdr}
}

func (g *Gen) next() (Action, bool) {
	s := g.s
	g.n++
	if g.n <= s.cfg.NSMF {
		m := s.smfs[g.n-1]
		return Action{Op: "send", SMF: m.Idx, Msg: &MsgIntent{T: "assoc", Seq: g.seq(m)}}, true
	}
	m := s.smfs[g.intn(len(s.smfs))]
	switch g.intn(6) {
	case 0:
		return Action{Op: "send", SMF: m.Idx, Msg: &MsgIntent{T: "hb", Seq: g.seq(m)}}, true
	case 1, 2:
		g.cp++
		return Action{Op: "send", SMF: m.Idx, Msg: &MsgIntent{T: "est", Seq: g.seq(m), Slot: g.intn(s.cfg.NSlots), CPSEID: g.cp, Create: g.simpleRules()}}, true
	case 3:
		return Action{Op: "send", SMF: m.Idx, Msg: &MsgIntent{T: "del", Seq: g.seq(m), Slot: g.intn(s.cfg.NSlots)}}, true
	case 4:
		return Action{Op: "adv", Ms: int64(1 + g.intn(3000))}, true
	default:
		return Action{Op: "send", SMF: m.Idx, Msg: &MsgIntent{T: "mod", Seq: g.seq(m), Slot: g.intn(s.cfg.NSlots)}}, true
	}
}
