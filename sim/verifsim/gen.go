//go:build verif

package verifsim

// Gen: the seeded generator of run configurations and actions (swarm style: every run
// draws its own sizes, workload mix and enabled fault kinds). It may look at the
// reference model (never at the UPF) to bias its choices; what it emits is an explicit,
// self-contained action.

import (
	"math/rand/v2"
	"os"
	"sort"
	"time"
)

type Gen struct {
	s    *Sim
	rng  *rand.Rand
	n    int
	cp   uint64
	mode string // clean | wild
	w    map[string]int
	held []int
	sent []int // action indexes of delivered datagrams (dup candidates)
	rich bool
	// per-profile toggles
	perioOK    bool
	dupCreate  bool
	canonical  bool // canonical child order (FAR id first etc.)
	slotGen    map[[2]int]int
	fdPool     []*FlowDescIntent
	stopAt     int
	between    int
	pending    []func() (Action, bool) // the rest of a composite scenario
	midStop    bool
	drainFirst bool
	wide       map[string][]uint32 // wide-ids runs: the id standing for the i-th small id, per kind
	filled     bool
	mass       int // >0: many sessions with 8 periodic URRs of one period (batch limit)
	massPeriod uint32
}

func pick[T any](r *rand.Rand, xs ...T) T { return xs[r.IntN(len(xs))] }

func profileConfig(p string, seed uint64) RunConfig {
	r := rand.New(rand.NewPCG(seed, 0xc0f19))
	c := RunConfig{Seed: seed, Profile: p, Driver: "gtp5g", Interpose: true, AutoFwd: true, AutoAnswer: true}
	c.RetransMs = pick(r, 137, 311, 1009, 2003, 4999)
	c.MaxRetrans = r.IntN(4)
	c.NSMF = 1 + r.IntN(3)
	c.NSlots = 1 + r.IntN(4)
	c.Steps = 15 + r.IntN(70)
	c.MapOrder = "seeded"
	if r.IntN(10) == 0 {
		c.MapOrder = "sorted"
	}
	c.LogLevel = "error"
	if r.IntN(12) == 0 {
		c.LogLevel = pick(r, "warn", "info", "debug", "trace")
	}
	c.Oracles = []string{p}
	switch p {
	case "C01":
		c.AutoAnswer = false
		if r.IntN(3) > 0 {
			c.Faults = append(c.Faults, "dp")
		}
		c.AutoFwd = r.IntN(3) > 0
	case "C03":
		if seed%4 == 1 {
			c.Faults = append(c.Faults, "dp-perio")
		}
	case "C04":
		c.AutoAnswer = false
		c.NSMF = 2 + r.IntN(2)
	case "C05":
		c.AutoAnswer = false
		c.AutoFwd = r.IntN(3) > 0
		c.NSMF = 2 + r.IntN(3)
		c.NSlots = 2 + r.IntN(3)
	case "C06":
		c.Faults = append(c.Faults, "n4")
		c.NSMF = 2 + r.IntN(2)
		c.CoLoc = r.IntN(3) == 0
		if r.IntN(5) == 0 {
			// a slow data plane: duplicates, answers and timer events queue up behind a
			// request the event loop is still working on
			c.KernLatency = pick(r, 40, 150)
			c.RetransMs = pick(r, 311, 1009)
			c.MaxRetrans = 1 + r.IntN(3)
			c.AutoAnswer = false // answers come when the scenario says so (mid-turn)
		}
	case "C07":
		if r.IntN(2) == 0 {
			c.Driver = "empty"
		}
		c.AutoAnswer = r.IntN(2) == 0 // leave UPF-initiated requests outstanding in half the runs
	case "C08":
		c.NSMF = 2 + r.IntN(3)
		c.CoLoc = r.IntN(3) == 0
		if r.IntN(3) == 0 {
			c.Faults = append(c.Faults, "dp") // requests the data plane refuses in part
		}
		if r.IntN(2) == 0 {
			c.Faults = append(c.Faults, "n4")
		}
	case "C09":
		c.AutoAnswer = false
		c.Faults = append(c.Faults, "n4", "smf")
		switch r.IntN(6) {
		case 0:
			c.TxSeqStart = 1<<24 - uint32(1+r.IntN(4))
		case 1:
			c.TxSeqStart = 1 << 24
		case 2:
			c.TxSeqStart = 1<<24 + uint32(1+r.IntN(1000))
		case 3:
			c.TxSeqStart = ^uint32(0) - uint32(r.IntN(4))
		case 4:
			c.TxSeqStart = r.Uint32()
		}
		if r.IntN(40) == 0 {
			// the largest retry count the configuration can express (beyond the 0..3 the
			// property quantifies over, but it costs nothing in simulated time)
			c.MaxRetrans = 255
			c.RetransMs = 137
			c.Steps = 8 + r.IntN(8)
		} else if r.IntN(4) == 0 {
			// a slow data plane against short timers: retransmission timers expire, and
			// answers arrive, while the event loop is inside a turn
			c.KernLatency = pick(r, 40, 150)
			c.RetransMs = pick(r, 137, 311)
			c.MaxRetrans = 1 + r.IntN(3)
		}
	case "C10":
		if r.IntN(3) == 0 {
			c.Faults = append(c.Faults, "n4") // socket errors on the UPF's own transmissions
			c.RetransMs = pick(r, 137, 311)
			c.MaxRetrans = 1 + r.IntN(3)
		}
	case "C12":
		// Session Report Requests left unanswered for a while: the requests that end a URR
		// then find a report for it still outstanding
		c.AutoAnswer = r.IntN(3) > 0
	case "C11":
		if r.IntN(3) == 0 {
			c.Faults = append(c.Faults, "dp-empty-del") // a URR removal that yields no final report
		}
		if r.IntN(2) == 0 {
			// a report whose first transmission fails is retransmitted later: the numbering
			// must not notice
			c.Faults = append(c.Faults, "n4")
			c.RetransMs = pick(r, 137, 311)
			c.MaxRetrans = 1 + r.IntN(3)
		}
	case "C13", "C14":
		if r.IntN(4) == 0 {
			c.Faults = append(c.Faults, "gtpu")
		}
		if p == "C13" && r.IntN(3) == 0 {
			c.AutoFwd = false // notifications wait in the report queue while requests are served
		} else if r.IntN(3) == 0 {
			c.MidFwd = true // ... or arrive while the event loop is inside a turn and pile up
		}
		if r.IntN(4) == 0 {
			c.Faults = append(c.Faults, "dp-far") // a FAR update the data plane refuses
		}
	case "C15":
		c.NSlots = 2 + r.IntN(4)
		c.Steps = 30 + r.IntN(50)
		if seed%3 == 0 {
			c.Steps = 25 + r.IntN(20)
		}
		if r.IntN(4) == 0 {
			// the two data-plane failures periodic reporting meets: a tick's query refused,
			// the removal of a URR refused or answered without its final report
			c.Faults = append(c.Faults, "dp-perio")
		}
	case "C17":
		c.FinalStop = true
		c.AutoAnswer = r.IntN(2) == 0
		c.Steps = 12 + r.IntN(40)
		c.Oracles = []string{"C17"}
		c.NoPeek = true
		if r.IntN(30) == 0 {
			c.EarlyStop = true
			c.Steps = 0
		} else if r.IntN(3) == 0 {
			// phase A: this configuration in lock-step; phase B: the same action list
			// free-running (free.go)
			c.FreeRun = true
			c.KernLatency = 0
			c.AutoAnswer = r.IntN(3) > 0
		} else if r.IntN(6) == 0 {
			// a slow data plane and short queues at shutdown time: ticks pile up
			c.KernLatency = pick(r, 300, 700, 1200)
			c.Steps = 10 + r.IntN(15)
			c.Knobs = map[string]int{"EVENT_CHANNEL_LEN": pick(r, 1, 2, 4)}
			if r.IntN(2) == 0 {
				// transaction timers expire while the loop waits for the data plane, into a
				// short time-out queue
				c.Knobs["TRANS_TIMEOUT_CHANNEL_LEN"] = pick(r, 1, 2)
				c.RetransMs = pick(r, 137, 311)
				c.AutoAnswer = false
			}
		} else if r.IntN(3) == 0 {
			// short input queues of the event loop: timer callbacks and the receiver are
			// then regularly found blocked on them when the stop request comes
			c.Knobs = map[string]int{"TRANS_TIMEOUT_CHANNEL_LEN": pick(r, 1, 2, 4), "RECEIVE_CHANNEL_LEN": pick(r, 1, 2, 64)}
			c.RetransMs = pick(r, 137, 311)
			c.AutoAnswer = false
		}
	case "C20":
		c.Startup = startupPlan(seed)
		c.Steps = 0
	}
	switch p {
	case "C06", "C09", "C15", "C17", "C10", "C11", "C12":
		// defects that need a history: a pool, a slab, a free list or a cache that only
		// goes wrong after it has been round once (tens of requests, several cycles)
		if seed%8 == 5 && c.Steps > 0 && !c.FreeRun && c.MaxRetrans < 10 && c.KernLatency < 200 {
			c.Accum = true
			c.Steps += 130
			if p == "C06" && seed%32 == 5 {
				c.Steps += 750 // room for a flood of hundreds of requests inside one retention window
			}
		}
	case "C18":
		c.Interpose = false
		c.KernLatency = pick(r, 0, 1, 7, 40)
		c.Knobs = map[string]int{"REPORT_CHANNEL_LEN": pick(r, 2, 4, 8, 128), "EVENT_CHANNEL_LEN": pick(r, 4, 8, 16, 512)}
		c.Steps = 15 + r.IntN(30)
		c.NSMF = 1 + r.IntN(2)
		c.PSFirst = pick(r, 0, 90, 100)
		c.AutoAnswer = r.IntN(2) == 0
		if r.IntN(3) == 0 {
			// slow data plane against short PFCP timers: timers fire inside event-loop turns
			c.RetransMs = 137
			c.KernLatency = pick(r, 40, 150)
			// ... into a short time-out queue: the callbacks of timers that expire while the
			// loop is busy wait for room in it
			c.Knobs["TRANS_TIMEOUT_CHANNEL_LEN"] = pick(r, 1, 2, 4, 64)
		}
		if r.IntN(4) == 0 {
			// ticks whose query the data plane refuses, URR removals it refuses: periodic
			// reporting has to survive any number of them
			c.Faults = append(c.Faults, "dp-perio")
			c.Steps += 40
		}
		if r.IntN(4) == 0 {
			// peers known by FQDN and a resolver that fails now and then: the reports of
			// those moments are lost, nothing else may be
			c.FQDNMask = 15
			c.DNSFlaky = pick(r, 30, 60, 100)
		}
	}
	if r.IntN(5) == 0 && c.DNSFlaky == 0 {
		c.FQDNMask = 1 + r.IntN(15) // some peers name themselves by FQDN
	}
	if p != "C17" && r.IntN(pickInt(p == "C15", 3, 8)) == 0 {
		// log statements as scheduling points (yieldHook); not under the race detector,
		// where the hook's counter would order the goroutines it parks
		c.LogLevel = pick(r, "debug", "trace")
		c.LogYield = pick(r, 10, 30, 60)
	}
	if w := os.Getenv("VERIF_WIDE_IDS"); p != "C20" && (seed%4 == 2 && w != "0" || w == "1") { // the variable: trials only
		// identifiers are identifiers: one run in four uses rule ids at the boundaries of
		// their field widths (255/256, 32767/32768, 65535/65536, 2^24, 2^31, 2^32-1) instead
		// of 1..4 (Gen.wid)
		c.WideIDs = true
	}
	switch p {
	case "C01", "C03", "C08", "C09", "C10", "C11", "C12", "C15":
		// size is a dimension of the input space: one run in sixteen has sessions with tens
		// to hundreds of URRs (one tick, one kernel batch, one response then carries that many
		// usage reports), one in sixteen (C03, C15) measurement periods of minutes to days
		if seed%16 == 9 && !c.FreeRun && c.KernLatency == 0 && c.MaxRetrans < 10 && !c.faultOn("dp-perio") {
			// (not together with refused URR removals: the periodic oracles judge around ONE
			// URR whose removal was refused; a refused removal inside the teardown of a
			// session with a hundred URRs, the SEID then re-used by another such session, is
			// outside what C03/C15 quantify over)
			c.Wide = true
			c.Steps += 25
		}
		if (p == "C03" || p == "C15") && seed%16 == 7 && seed%3 != 0 && c.LogYield == 0 {
			// (not in the mass / accumulation / overtake variants, whose scenarios create
			// URRs with periods of seconds: a day of one-second ticks is 86 400 of them)
			c.LongPeriods = true
		}
	}
	if (p == "C04" || p == "C05") && seed%128 == 17 {
		// population is a dimension too: hundreds of sessions alive at once (one run in 128;
		// such a run costs about a second), more than a thousand (C04, one run in 2048, eight
		// seconds each); see Gen.fill
		rm := rand.New(rand.NewPCG(seed, 0x3a9))
		c.Many = pick(rm, 260, 300, 520)
		if p == "C04" && seed%2048 == 145 {
			c.Many = pick(rm, 1030, 1100)
		}
		c.NSlots = (c.Many+c.NSMF-1)/c.NSMF + 2
		c.Steps = c.Many*2 + 80
		c.LogLevel, c.LogYield = "error", 0
	}
	if (p == "C15" || p == "C03") && seed%8 == 3 && len(c.Faults) == 0 && c.KernLatency == 0 && c.LogYield == 0 {
		// the periodic server kept inside one tick while registrations change and further
		// ticks fall due: what it finds queued afterwards must be served in order
		c.Overtake = true
		c.Steps += 30
	}
	return c
}

func pickInt(cond bool, a, b int) int {
	if cond {
		return a
	}
	return b
}

func (c *RunConfig) faultOn(k string) bool {
	for _, f := range c.Faults {
		if f == k {
			return true
		}
	}
	return false
}

func newGen(s *Sim) *Gen {
	g := &Gen{s: s, rng: rand.New(rand.NewPCG(s.cfg.Seed, 0x5eed)), cp: 0x100, mode: "clean", w: map[string]int{}, slotGen: map[[2]int]int{}}
	p := s.cfg.Profile
	// default workload mix
	g.w = map[string]int{"hb": 2, "assoc": 1, "est": 8, "mod": 12, "del": 4, "adv": 4}
	switch p {
	case "C01":
		g.mode = "wild"
		g.perioOK = true
		g.dupCreate = true
		g.w["reassoc"] = 2
		g.w["krep"] = 2
		g.w["ansseid0"] = 2
		g.w["takeover"] = 1
		if s.cfg.faultOn("dp") {
			g.w["fault"] = 6
		}
		g.w["ans"] = 3
	case "C02", "C03":
		g.rich = true
		g.w["mod"] = 20
		if s.cfg.Seed%4 == 0 {
			g.w["fault"] = 2
		}
		g.perioOK = p == "C03"
		if p == "C03" {
			g.w["advp"] = 3
		}
		if s.cfg.faultOn("dp-perio") {
			g.w["fault"], g.w["modurr"], g.w["advp"] = 4, 8, 6
		}
	case "C04":
		g.w = map[string]int{"hb": 1, "assoc": 1, "est": 10, "mod": 4, "del": 8, "reassoc": 3, "probe": 10, "krep": 3, "ansseid0": 3, "adv": 1}
	case "C05":
		g.w = map[string]int{"hb": 1, "est": 10, "mod": 12, "del": 5, "reassoc": 3, "krep": 4, "kbuf": 4, "ansseid0": 3, "takeover": 3, "adv": 1}
		g.w["ans"] = 2
		if s.cfg.Seed%3 == 0 {
			// several sessions sharing period groups: one session leaving a group must not
			// take the others' registrations with it
			g.perioOK = true
			g.w["modurr"] = 6
		}
	case "C06":
		g.w = map[string]int{"hb": 6, "assoc": 2, "est": 6, "mod": 8, "del": 3, "other": 3, "dup": 14, "hold": 4, "deliver": 5, "adv": 8, "advwin": 4, "sameseq": 6}
		if s.cfg.Seed%2 == 0 {
			// the UPF's own requests (reports) and their answers in between: both directions
			// number their requests from small integers and use the same addresses
			g.w["krep"], g.w["kbufnocp"], g.w["ans"] = 4, 3, 3
		}
		if s.cfg.KernLatency > 0 {
			g.w["krep"], g.w["kbufnocp"], g.w["armans"], g.w["est"], g.w["mod"] = 6, 3, 8, 8, 8
			g.w["crossdup"] = 6
		}
	case "C08":
		g.w = map[string]int{"hb": 4, "assoc": 2, "reassoc": 1, "est": 8, "mod": 8, "del": 3, "adv": 3, "advbig": 2, "badest": 5, "probe": 4, "other": 2, "unknownpeer": 2}
		g.perioOK = false
		if s.cfg.faultOn("dp") {
			g.w["fault"], g.w["reassoc"] = 5, 3
		}
	case "C09":
		g.w = map[string]int{"hb": 1, "est": 5, "mod": 2, "krep": 12, "kbufnocp": 5, "ans": 12, "adv": 8, "advrt": 8, "del": 1}
		if s.cfg.KernLatency > 0 {
			g.w["armans"], g.w["est"], g.w["mod"] = 8, 8, 6
		}
	case "C10", "C11", "C12":
		g.w = map[string]int{"hb": 1, "est": 6, "mod": 16, "del": 3, "krep": 8, "adv": 3, "reassoc": 1}
		g.perioOK = true
		if s.cfg.faultOn("dp-empty-del") {
			g.w["fault"] = 4
		}
		if !s.cfg.AutoAnswer {
			g.w["ans"], g.w["adv"] = 4, 5
		}
		if p == "C10" {
			g.w["krepbad"] = 3
			g.w["takeover"] = 1
		}
	case "C13", "C14":
		g.canonical = true
		g.w = map[string]int{"est": 5, "kbuf": 14, "kbufburst": 2, "kbufbad": 2, "farflip": 12, "mod": 3, "del": 2, "rmpdr": 2, "adv": 1, "reest": 3, "reassoc": 2, "ansseid0": 1}
		if s.cfg.faultOn("gtpu") {
			g.w["gtpuerr"] = 2
		}
		if s.cfg.MidFwd {
			g.w["armkbuf"] = 8
		}
		if s.cfg.faultOn("dp-far") {
			g.w["fault"] = 6
		}
	case "C15":
		g.perioOK = true
		g.w = map[string]int{"est": 6, "modurr": 10, "del": 3, "adv": 10, "advp": 10, "reassoc": 1}
		if s.cfg.Seed%3 == 0 {
			g.mass = 1
			g.massPeriod = uint32(pick(g.rng, 1, 2, 3))
			g.w = map[string]int{"est": 30, "modurr": 3, "del": 3, "advshort": 6, "reassoc": 1}
		}
		if s.cfg.LogYield > 0 {
			g.w["tickswap"] = 10
		}
		if s.cfg.faultOn("dp-perio") {
			g.w["fault"] = 6
		}
	case "C17":
		g.mode = "clean"
		g.perioOK = true
		g.w = map[string]int{"hb": 2, "est": 8, "mod": 8, "del": 2, "dup": 3, "krep": 6, "kbuf": 4, "adv": 5, "ans": 3, "detach": 5, "farflip": 2}
		if s.cfg.KernLatency > 0 {
			g.w["armans"] = 4
		}
		if s.cfg.FreePlan {
			g.w["modurr"], g.w["adv"] = 6, 8
		}
	case "C18":
		g.perioOK = true
		g.mass = 1
		g.massPeriod = 1
		g.w = map[string]int{"est": 14, "modurr": 2, "advshort": 6, "krepburst": 4, "reassoc": 3, "del": 3, "hb": 2, "armans": 4, "krep": 3}
		if s.cfg.faultOn("dp-perio") {
			g.w["fault"] = 8
		}
	case "C07":
		g.mode = "wild"
		g.perioOK = true
		g.w = map[string]int{"hb": 2, "est": 6, "mod": 6, "del": 2, "raw": 24, "adv": 2, "krep": 3, "kbufnocp": 3, "reassoc": 1, "rawrsp": 6, "ans": 2}
	}
	if s.cfg.Accum {
		switch p {
		case "C06":
			g.w["flood"] = 4
		case "C09":
			g.w["repflood"] = 4
		case "C15", "C17":
			g.w["cycle"] = 5
		case "C10", "C11", "C12":
			g.w["cycle"] = 4
		}
	}
	if s.cfg.Wide {
		g.w["widesess"] = 8
	}
	if s.cfg.Overtake {
		// the periodic server kept inside one tick while registrations change and further
		// ticks fall due: what it finds queued afterwards must be served in order
		g.w["overtake"] = 5
		g.perioOK = true
	}
	if s.cfg.faultOn("n4") {
		g.w["n4err"] = 2
	}
	if s.cfg.Interpose && !s.cfg.AutoFwd {
		g.w["fwdrep"] = 10
	}
	return g
}

func (g *Gen) intn(n int) int {
	if n <= 0 {
		return 0
	}
	return g.rng.IntN(n)
}
func (g *Gen) chance(p float64) bool { return g.rng.Float64() < p }

func (g *Gen) seq(m *SMF) uint32 {
	v := m.Seq
	m.Seq++
	return v
}

func u8p(v uint8) *uint8    { return &v }
func u16p(v uint16) *uint16 { return &v }
func u32p(v uint32) *uint32 { return &v }

// bv: a boundary-biased value of the given width.
func (g *Gen) bv(bits uint) uint64 {
	max := uint64(1)<<bits - 1
	if bits >= 64 {
		max = ^uint64(0)
	}
	switch g.intn(9) {
	case 0:
		return 0
	case 1:
		return 1
	case 2:
		return max
	case 3:
		return max - 1
	case 4:
		k := uint(g.intn(int(bits)))
		return (uint64(1) << k) & max
	case 5:
		k := uint(1 + g.intn(int(bits)-1))
		return ((uint64(1) << k) - 1) & max
	case 6:
		k := uint(1 + g.intn(int(bits)-1))
		return ((uint64(1) << k) + 1) & max
	}
	return g.rng.Uint64() & max
}

func (g *Gen) ip4() [4]byte {
	return [4]byte{byte(1 + g.intn(223)), byte(g.intn(256)), byte(g.intn(256)), byte(1 + g.intn(254))}
}

func (g *Gen) net4() Net4 {
	switch g.intn(5) {
	case 0:
		return Net4{Kind: "any"}
	case 1:
		return Net4{Kind: "assigned"}
	case 2:
		return Net4{Kind: "host", IP: g.ip4()}
	}
	return Net4{Kind: "cidr", IP: g.ip4(), Bits: g.intn(33)}
}

func (g *Gen) ports() [][2]uint16 {
	n := g.intn(4)
	if g.chance(0.4) {
		n = 0
	}
	var out [][2]uint16
	for i := 0; i < n; i++ {
		lo := uint16(g.bv(16))
		if g.chance(0.5) {
			out = append(out, [2]uint16{lo, lo})
		} else {
			hi := uint16(g.bv(16))
			if hi == lo {
				hi = lo + 1
			}
			out = append(out, [2]uint16{lo, hi})
		}
	}
	return out
}

func (g *Gen) flowDesc() *FlowDescIntent {
	// the same flow description is often used by several rules (uplink and downlink,
	// several sessions): re-use earlier ones
	if len(g.fdPool) > 0 && g.chance(0.45) {
		c := *g.fdPool[g.intn(len(g.fdPool))]
		return &c
	}
	f := g.newFlowDesc()
	if len(g.fdPool) < 6 {
		g.fdPool = append(g.fdPool, f)
	}
	c := *f
	return &c
}

func (g *Gen) newFlowDesc() *FlowDescIntent {
	f := &FlowDescIntent{Out: g.chance(0.5), Proto: g.intn(256), Src: g.net4(), Dst: g.net4(), Spaces: g.intn(3)}
	if g.chance(0.3) {
		f.Proto = -1
	}
	f.SrcPorts = g.ports()
	f.DstPorts = g.ports()
	return f
}

func (g *Gen) perm(n int) []int {
	if g.canonical || !g.chance(0.5) {
		return nil
	}
	return g.rng.Perm(n)
}

var idRange = map[string]int{"pdr": 4, "far": 3, "qer": 2, "urr": 3, "bar": 2}

var idBits = map[string]uint{"pdr": 16, "far": 32, "qer": 32, "urr": 32, "bar": 8}

// wid maps the i-th id (1-based) of the tiny per-kind range to the id this run uses for it.
// Most runs use i itself; a "wide ids" run (RunConfig.WideIDs) draws, once per run and kind,
// distinct values at the boundaries of the field's width (255/256, 32767/32768, 65535/65536,
// 2^24, 2^31, 2^32-1, ...): ids are identifiers, their magnitude must not matter.
func (g *Gen) wid(kind string, i int) uint32 {
	if !g.s.cfg.WideIDs {
		return uint32(i)
	}
	if g.wide == nil {
		g.wide = map[string][]uint32{}
		r := rand.New(rand.NewPCG(g.s.cfg.Seed, 0x1d5))
		for _, k := range []string{"pdr", "far", "qer", "urr", "bar"} {
			bits := idBits[k]
			max := uint64(1)<<bits - 1
			seen := map[uint32]bool{}
			var tab []uint32
			for len(tab) < idRange[k] {
				var v uint64
				switch r.IntN(6) {
				case 0:
					v = max - uint64(r.IntN(3))
				case 1:
					v = uint64(1)<<(bits-1) - 1 + uint64(r.IntN(3))
				case 2, 3:
					b := uint(8)
					if bits > 8 {
						b = uint(pick(r, 8, 15, 16, 24, 31))
						if b >= bits {
							b = bits - 1
						}
					}
					v = uint64(1)<<b - 1 + uint64(r.IntN(3))
				default:
					v = r.Uint64() & max
				}
				v &= max
				// clear of the small range (scenario code uses small literal ids) and of 0
				if v <= 64 && bits > 8 || v <= 8 || seen[uint32(v)] {
					continue
				}
				seen[uint32(v)] = true
				tab = append(tab, uint32(v))
			}
			g.wide[k] = tab
		}
	}
	return g.wide[kind][i-1]
}

func (g *Gen) someIDs(kind string, max int) []uint32 {
	n := g.intn(max + 1)
	var out []uint32
	seen := map[uint32]bool{}
	for i := 0; i < n; i++ {
		id := g.wid(kind, 1+g.intn(idRange[kind]))
		if seen[id] {
			continue
		}
		seen[id] = true
		out = append(out, id)
	}
	return out
}

// rule generates the content of one rule.
func (g *Gen) rule(kind string, id uint32, update bool) RuleIntent {
	r := RuleIntent{Kind: kind, ID: id}
	opt := func() bool { return !update && g.chance(0.8) || update && g.chance(0.45) }
	switch kind {
	case "pdr":
		if opt() {
			r.Prec = u32p(uint32(g.bv(32)))
		}
		if !update || g.chance(0.5) {
			r.SrcIf = u8p(uint8(pick(g.rng, 0, 1, 0, 1, 2, 3)))
			if g.rich || g.chance(0.3) {
				if g.chance(0.5) {
					r.FTEID = u32p(uint32(g.bv(32)))
					r.FTEIDIP = g.ip4()
					r.FTEID6 = g.chance(0.2)
				}
				if g.chance(0.6) {
					ip := g.ip4()
					r.UEIP = &ip
				}
				if g.chance(0.3) {
					r.NetIns = "internet"
				}
				ns := 0
				if g.rich {
					ns = g.intn(4)
				} else if g.chance(0.3) {
					ns = 1
				}
				for i := 0; i < ns; i++ {
					sdf := SDFIntent{}
					if g.chance(0.85) {
						sdf.FD = g.flowDesc()
					}
					sdf.TTC = g.chance(0.15)
					sdf.SPI = g.chance(0.15)
					sdf.FL = g.chance(0.15)
					if g.chance(0.4) || (sdf.FD == nil && !sdf.TTC && !sdf.SPI && !sdf.FL) {
						sdf.BID = u32p(uint32(g.bv(32)))
					}
					r.SDFs = append(r.SDFs, sdf)
				}
				n := 0
				if r.SrcIf != nil {
					n++
				}
				if r.FTEID != nil {
					n++
				}
				if r.NetIns != "" {
					n++
				}
				if r.UEIP != nil {
					n++
				}
				r.PDIOrd = g.perm(n + len(r.SDFs))
			}
		} else {
			r.NoPDI = true
		}
		if opt() {
			r.OHR = u8p(uint8(g.intn(6)))
		}
		if opt() {
			r.FARID = u32p(g.wid("far", 1+g.intn(idRange["far"])))
		}
		if !update || g.chance(0.5) {
			r.QERIDs = g.someIDs("qer", 2)
			r.URRIDs = g.someIDs("urr", 3)
			if update && len(r.URRIDs) == 0 {
				// an Update PDR without URR IDs is ambiguous (unchanged vs emptied): always name one
				r.URRIDs = []uint32{g.wid("urr", 1+g.intn(idRange["urr"]))}
			}
		}
	case "far":
		if opt() {
			act := uint16(pick(g.rng, 1, 2, 4, 12, 2, 2, 6, 10, 16, 18))
			r.ActionLen = 1
			if g.rich && g.chance(0.5) {
				act = uint16(g.bv(8))
			}
			if g.chance(0.3) {
				r.ActionLen = 2
				if g.rich {
					act |= uint16(g.bv(8)) << 8
				}
			}
			r.Action = &act
		}
		if opt() {
			fp := &FPIntent{}
			if g.chance(0.7) {
				fp.DestIf = u8p(uint8(g.intn(4)))
			}
			if g.chance(0.2) {
				fp.NetIns = "internet"
			}
			if g.chance(0.8) {
				o := &OHCIntent{}
				if g.chance(0.75) {
					o.Desc = 0x0100
					o.TEID = uint32(g.bv(32))
					o.IP = g.ip4()
				} else {
					o.Desc = 0x0400
					o.IP = g.ip4()
					o.Port = uint16(g.bv(16))
				}
				fp.OHC = o
			}
			if g.chance(0.25) {
				p := pick(g.rng, "p", "policy-1", "0123456789abcdef")
				fp.Policy = &p
			}
			if g.chance(0.2) {
				fp.SMReq = u8p(uint8(g.bv(8)))
			}
			r.FP = fp
		}
		if g.chance(0.3) {
			r.BARID = u8p(uint8(g.wid("bar", 1+g.intn(idRange["bar"]))))
		}
	case "qer":
		if opt() {
			r.Gate = u8p(uint8(g.intn(16)))
		}
		if opt() {
			r.MBR = &[2]uint64{g.bv(40), g.bv(40)}
		}
		if g.chance(0.5) {
			r.GBR = &[2]uint64{g.bv(40), g.bv(40)}
		}
		if opt() {
			r.QFI = u8p(uint8(g.intn(64)))
		}
		if g.chance(0.4) {
			r.RQI = u8p(uint8(g.intn(2)))
		}
		if g.chance(0.4) {
			r.PPI = u8p(uint8(g.intn(8)))
		}
		if g.chance(0.4) {
			r.CorrID = u32p(uint32(g.bv(32)))
		}
	case "urr":
		if !update || g.chance(0.4) {
			r.Method = u8p(uint8(1 + g.intn(7)))
		}
		if !update || (g.mode == "wild" && g.chance(0.5)) {
			var t uint32
			r.TrigLen = pick(g.rng, 2, 3)
			if g.rich {
				t = uint32(g.bv(24))
			} else {
				t = uint32(pick(g.rng, 0x2, 0x100, 0x102, 0x4, 0x202, 0x82, 0x180))
			}
			t &^= 1
			if g.perioOK && g.chance(0.5) {
				t |= 1
				r.Period = u32p(g.somePeriod())
				if g.s.cfg.Profile == "C07" && g.chance(0.25) {
					r.Period = u32p(uint32(pick(g.rng, 0, 0, 0xffffffff, 0x80000000))) // extreme values
				}
			} else if g.chance(0.2) {
				r.Period = u32p(uint32(pick(g.rng, 1, 7, 60)))
			}
			if r.TrigLen == 2 {
				t &= 0xffff
			}
			r.Trigger = &t
		}
		if !update || g.chance(0.3) {
			mi := uint8(0)
			if g.chance(0.5) {
				mi |= 0x10
			}
			if g.rich {
				mi |= uint8(g.intn(16))
			}
			r.MInfo = &mi
		}
		if g.chance(0.25) {
			// usage of this URR is also to be reported when a linked one reports (LIUSA):
			// links to any id of the tiny range, itself included, so cycles come up
			for i, n := 0, 1+g.intn(2); i < n; i++ {
				r.Linked = append(r.Linked, g.wid("urr", 1+g.intn(idRange["urr"])))
			}
		}
		if g.chance(0.5) {
			r.VolTh = &VolIntent{Flags: uint8(g.intn(8)), Tot: g.bv(64), UL: g.bv(64), DL: g.bv(64)}
		}
		if g.chance(0.4) {
			r.VolQu = &VolIntent{Flags: uint8(g.intn(8)), Tot: g.bv(64), UL: g.bv(64), DL: g.bv(64)}
		}
	case "bar":
		if opt() {
			r.Delay = u8p(uint8(g.bv(8)))
		}
		if opt() {
			r.Count = u8p(uint8(g.bv(8)))
		}
	}
	// child order
	n := len(r.kids(update))
	r.Order = g.perm(n)
	return r
}

var kinds = []string{"far", "qer", "urr", "bar", "pdr"}

// liveOf returns the model's session behind a slot (nil if none).
func (g *Gen) liveOf(m *SMF, slot int) *MSess {
	sl := m.slot(slot)
	if !sl.Known {
		return nil
	}
	x := g.s.model.sess[sl.UP]
	if x != nil && x.SMF == m.Idx && x.Slot == sl.Idx {
		return x
	}
	return nil
}

func (g *Gen) anyLive() (*SMF, int, *MSess) {
	var cands [][2]int
	for _, m := range g.s.smfs {
		for j := range m.Slots {
			if g.liveOf(m, j) != nil {
				cands = append(cands, [2]int{m.Idx, j})
			}
		}
	}
	if len(cands) == 0 {
		return nil, 0, nil
	}
	c := cands[g.intn(len(cands))]
	m := g.s.smfs[c[0]]
	return m, c[1], g.liveOf(m, c[1])
}

func sortedRefs(m map[RuleRef]bool, kind string) []uint32 {
	var out []uint32
	for r, ok := range m {
		if ok && r.Kind == kind {
			out = append(out, r.ID)
		}
	}
	sort.Slice(out, func(i, j int) bool { return out[i] < out[j] })
	return out
}

func (g *Gen) estMsg(m *SMF, slot int) *MsgIntent {
	g.cp++
	cp := g.cp<<16 | uint64(m.Idx+1)
	if g.s.cfg.Profile == "C05" || g.chance(0.3) {
		// equal CP SEIDs across peers (never twice within one peer)
		g.slotGen[[2]int{m.Idx, slot}]++
		cp = uint64(0x10 + slot*64 + g.slotGen[[2]int{m.Idx, slot}]%64)
	}
	if g.chance(0.15) {
		// a peer numbering its sessions from a small pool: the control-plane SEID of one
		// of its own sessions that has ended (never one a live session of its still uses)
		ended := g.s.model.ended
		for i := len(ended) - 1; i >= 0 && i >= len(ended)-6; i-- {
			e := ended[i]
			if e.SMF != m.Idx || e.CP == 0 {
				continue
			}
			inUse := false
			for _, x := range g.s.model.sess {
				if x.SMF == m.Idx && x.CP == e.CP {
					inUse = true
				}
			}
			if !inUse {
				cp = e.CP
				break
			}
		}
	}
	in := &MsgIntent{T: "est", Seq: g.seq(m), Slot: slot, CPSEID: cp}
	for _, kind := range kinds {
		n := 1 + g.intn(idRange[kind])
		if kind == "bar" {
			n = g.intn(2) // at most one Create BAR per message
		}
		if kind == "urr" && g.chance(0.2) {
			n = 0
		}
		ids := g.rng.Perm(idRange[kind])
		for i := 0; i < n; i++ {
			in.Create = append(in.Create, g.rule(kind, g.wid(kind, 1+ids[i]), false))
		}
	}
	if g.mode == "wild" && g.chance(0.3) {
		k := pick(g.rng, kinds...)
		if k != "bar" {
			in.Create = append(in.Create, g.rule(k, g.wid(k, 1+g.intn(idRange[k])), false))
		}
	}
	return in
}

func (g *Gen) modMsg(m *SMF, slot int, x *MSess) *MsgIntent {
	in := &MsgIntent{T: "mod", Seq: g.seq(m), Slot: slot}
	used := map[RuleRef]bool{}
	barCreate, barUpdate, barRemove := false, false, false
	nops := 1 + g.intn(4)
	for i := 0; i < nops; i++ {
		kind := pick(g.rng, "far", "qer", "urr", "bar", "pdr", "pdr", "urr")
		op := pick(g.rng, "create", "update", "update", "remove", "query")
		if op == "query" {
			kind = "urr"
		}
		var id uint32
		if g.mode == "wild" || x == nil {
			id = g.wid(kind, 1+g.intn(idRange[kind]))
		} else {
			have := sortedRefs(x.Req, kind)
			switch op {
			case "create":
				var free []uint32
				for c := 1; c <= idRange[kind]; c++ {
					if !x.Req[RuleRef{kind, g.wid(kind, c)}] {
						free = append(free, g.wid(kind, c))
					}
				}
				if len(free) == 0 {
					continue
				}
				id = free[g.intn(len(free))]
			default:
				if len(have) == 0 {
					continue
				}
				id = have[g.intn(len(have))]
			}
		}
		ref := RuleRef{kind, id}
		if g.mode != "wild" && used[ref] {
			continue
		}
		used[ref] = true
		switch op {
		case "create":
			if kind == "bar" {
				if barCreate {
					continue
				}
				barCreate = true
			}
			in.Create = append(in.Create, g.rule(kind, id, false))
		case "update":
			if kind == "bar" {
				if barUpdate {
					continue
				}
				barUpdate = true
			}
			in.Update = append(in.Update, g.rule(kind, id, true))
		case "remove":
			if kind == "bar" {
				if barRemove {
					continue
				}
				barRemove = true
			}
			in.Remove = append(in.Remove, ref)
		case "query":
			in.Query = append(in.Query, id)
		}
	}
	return in
}

func (g *Gen) weighted() string {
	total := 0
	keys := make([]string, 0, len(g.w))
	for k, v := range g.w {
		if v > 0 {
			keys = append(keys, k)
			total += v
		}
	}
	sort.Strings(keys)
	x := g.intn(total)
	for _, k := range keys {
		x -= g.w[k]
		if x < 0 {
			return k
		}
	}
	return keys[0]
}

func (g *Gen) noteSent(a Action) Action {
	idx := g.s.actNo
	if a.Op == "send" || a.Op == "raw" {
		if a.Net == "hold" {
			g.held = append(g.held, idx)
		} else if a.Net == "" {
			g.sent = append(g.sent, idx)
		}
	}
	return a
}

var seidProbes = []uint64{0, 1 << 62, 1<<63 - 1, 1 << 63, 1<<63 + 1, ^uint64(0), ^uint64(0) - 1, 1 << 32, 1<<32 + 1, 0xffff}

func (g *Gen) next() (Action, bool) {
	s := g.s
	g.n++
	if s.cfg.FinalStop {
		// stop at a seed-chosen point, with a few actions between Stop() and Close()
		if g.stopAt == 0 {
			g.stopAt = len(s.smfs) + 3 + g.intn(max(1, s.cfg.Steps-8))
			g.between = g.intn(4)
			g.midStop = g.chance(0.3)
			g.drainFirst = !g.midStop && g.chance(0.35)
		}
		if g.drainFirst && g.n == g.stopAt-1 {
			// let every retransmission fall due before the stop: the exactly-once check of
			// time-out events (checkTxDone) then has something to judge
			return Action{Op: "adv", Ms: int64((s.cfg.MaxRetrans+2)*s.cfg.RetransMs) + 35000}, true
		}
		if g.midStop && g.n == g.stopAt-1 {
			return Action{Op: "armstop", N: 1 + g.intn(8)}, true
		}
		switch {
		case g.n == g.stopAt:
			if g.midStop {
				// something that makes the event loop call the data plane
				if a, ok := g.one(); ok {
					return a, true
				}
			}
			return Action{Op: "stop1"}, true
		case g.n > g.stopAt && g.n <= g.stopAt+g.between:
			switch g.intn(5) {
			case 0:
				return Action{Op: "adv", Ms: int64(pick(g.rng, 1, 200, 1000, 1100, 5000))}, true
			case 1:
				if a, ok := g.krep(); ok {
					return a, true
				}
			case 2:
				if a, ok := g.kbuf(); ok {
					return a, true
				}
			case 3:
				if len(g.sent) > 0 {
					return Action{Op: "dup", Ref: g.sent[len(g.sent)-1]}, true
				}
			}
			return Action{Op: "adv", Ms: int64(s.cfg.RetransMs + 1)}, true
		case g.n == g.stopAt+g.between+1:
			return Action{Op: "stop2"}, true
		case g.n > g.stopAt+g.between+1:
			return Action{}, false
		}
	}
	if g.n <= len(s.smfs) {
		m := s.smfs[g.n-1]
		return g.noteSent(Action{Op: "send", SMF: m.Idx, Msg: &MsgIntent{T: "assoc", Seq: g.seq(m)}}), true
	}
	if s.cfg.Many > 0 && !g.filled {
		g.filled = true
		g.fill()
	}
	for len(g.pending) > 0 {
		f := g.pending[0]
		g.pending = g.pending[1:]
		if a, ok := f(); ok {
			return g.noteSent(a), true
		}
	}
	for tries := 0; tries < 20; tries++ {
		if a, ok := g.one(); ok {
			return g.noteSent(a), true
		}
	}
	m := s.smfs[0]
	return g.noteSent(Action{Op: "send", SMF: 0, Msg: &MsgIntent{T: "hb", Seq: g.seq(m)}}), true
}

func (g *Gen) one() (Action, bool) {
	s := g.s
	m := s.smfs[g.intn(len(s.smfs))]
	slot := g.intn(s.cfg.NSlots)
	W := s.model.window().Milliseconds()
	RT := int64(s.cfg.RetransMs)
	switch g.weighted() {
	case "hb":
		return Action{Op: "send", SMF: m.Idx, Msg: &MsgIntent{T: "hb", Seq: g.seq(m)}}, true
	case "assoc", "reassoc":
		return Action{Op: "send", SMF: m.Idx, Msg: &MsgIntent{T: "assoc", Seq: g.seq(m)}}, true
	case "est":
		if g.liveOf(m, slot) != nil && g.chance(0.7) && g.mass == 0 {
			return Action{}, false
		}
		if g.s.cfg.Profile == "C13" || g.s.cfg.Profile == "C14" {
			return Action{Op: "send", SMF: m.Idx, Msg: g.bufEst(m, slot)}, true
		}
		if g.s.cfg.Profile == "C15" || g.s.cfg.Profile == "C18" || (g.s.cfg.Profile == "C17" && g.s.cfg.KernLatency > 0) {
			if g.mass > 0 {
				return Action{Op: "send", SMF: m.Idx, Msg: g.perioEst(m, slot, 8, g.massPeriod)}, true
			}
			return Action{Op: "send", SMF: m.Idx, Msg: g.perioEst(m, slot, 1+g.intn(4), 0)}, true
		}
		if g.s.cfg.FreePlan && g.chance(0.5) {
			// periodic URRs with short periods: ticks must overlap requests in phase B
			return Action{Op: "send", SMF: m.Idx, Msg: g.perioEst(m, slot, 1+g.intn(3), uint32(1+g.intn(2)))}, true
		}
		return Action{Op: "send", SMF: m.Idx, Msg: g.estMsg(m, slot)}, true
	case "tickswap":
		// aimed at the instant of a tick: a session with one periodic URR of period p, the
		// clock moved by exactly p (the tick is due a few ns before the next message),
		// then one message that takes that URR out of its group and puts another in
		p := uint32(pick(g.rng, 1, 2, 3))
		g.pending = append(g.pending,
			func() (Action, bool) { return Action{Op: "adv", Ms: int64(p) * 1000}, true },
			func() (Action, bool) {
				x := g.liveOf(m, slot)
				if x == nil {
					return Action{}, false
				}
				in := &MsgIntent{T: "mod", Seq: g.seq(m), Slot: slot}
				for _, u := range sortedRefs(x.Req, "urr") {
					if it := x.Intent[RuleRef{"urr", u}]; it != nil && it.Period != nil && *it.Period == p {
						in.Remove = append(in.Remove, RuleRef{"urr", u})
					}
				}
				if len(in.Remove) == 0 {
					return Action{}, false
				}
				t, meth := uint32(1), uint8(2)
				for c := uint32(1); c <= 12; c++ {
					if !x.Req[RuleRef{"urr", c}] {
						in.Create = append(in.Create, RuleIntent{Kind: "urr", ID: c, Method: &meth, Trigger: &t, TrigLen: 2, Period: &p, MInfo: u8p(0)})
						break
					}
				}
				return Action{Op: "send", SMF: m.Idx, Msg: in}, len(in.Create) > 0
			})
		return Action{Op: "send", SMF: m.Idx, Msg: g.perioEst(m, slot, 1, p)}, true
	case "farflip":
		return g.farFlip()
	case "modurr":
		return g.modURR()
	case "raw":
		return g.rawAction()
	case "rawrsp":
		return g.rawResponse()
	case "rmpdr":
		mm, sl, x := g.anyLive()
		if x == nil {
			return Action{}, false
		}
		pdrs := sortedRefs(x.Req, "pdr")
		if len(pdrs) == 0 {
			return Action{}, false
		}
		return Action{Op: "send", SMF: mm.Idx, Msg: &MsgIntent{T: "mod", Seq: g.seq(mm), Slot: sl, Remove: []RuleRef{{"pdr", pdrs[g.intn(len(pdrs))]}}}}, true
	case "reest":
		mm, sl, x := g.anyLive()
		if x == nil {
			return Action{}, false
		}
		_ = sl
		return Action{Op: "send", SMF: mm.Idx, Msg: &MsgIntent{T: "del", Seq: g.seq(mm), Slot: sl}}, true
	case "mod":
		x := g.liveOf(m, slot)
		if x == nil && (g.mode != "wild" || g.chance(0.8)) {
			mm, sl, xx := g.anyLive()
			if xx == nil {
				return Action{}, false
			}
			m, slot, x = mm, sl, xx
		}
		return Action{Op: "send", SMF: m.Idx, Msg: g.modMsg(m, slot, x)}, true
	case "del":
		x := g.liveOf(m, slot)
		if x == nil && g.chance(0.8) {
			mm, sl, xx := g.anyLive()
			if xx == nil {
				return Action{}, false
			}
			m, slot = mm, sl
		}
		return Action{Op: "send", SMF: m.Idx, Msg: &MsgIntent{T: "del", Seq: g.seq(m), Slot: slot}}, true
	case "takeover":
		mm, sl, x := g.anyLive()
		if x == nil {
			return Action{}, false
		}
		in := &MsgIntent{T: "mod", Seq: g.seq(mm), Slot: sl, NodeID: "10.1.1." + string(rune('1'+g.intn(8)))}
		if g.chance(0.3) {
			// an SMF that always fills in the optional Node ID: the one the session belongs to
			in.NodeID = x.Node
			return Action{Op: "send", SMF: mm.Idx, Msg: in}, true
		}
		if _, taken := s.model.nodes[in.NodeID]; taken {
			return Action{}, false
		}
		return Action{Op: "send", SMF: mm.Idx, Msg: in}, true
	case "probe":
		in := &MsgIntent{T: pick(g.rng, "mod", "del"), Seq: g.seq(m), Slot: slot}
		var v uint64
		switch g.intn(5) {
		case 0:
			v = seidProbes[g.intn(len(seidProbes))]
		case 1:
			v = uint64(s.srvSlots() + 1 + g.intn(3))
		case 2:
			if len(s.model.ended) > 0 {
				v = s.model.ended[g.intn(len(s.model.ended))].UP
			}
		case 3:
			v = g.rng.Uint64()
		default:
			v = uint64(1 + g.intn(8))
		}
		in.SEID = &v
		if in.T == "mod" && g.chance(0.5) {
			in.Create = append(in.Create, g.rule("far", 1, false))
		}
		return Action{Op: "send", SMF: m.Idx, Msg: in}, true
	case "badest":
		in := g.estMsg(m, slot)
		switch g.intn(3) {
		case 0:
			in.NodeID = "-"
		case 1:
			in.NoFSEID = true
		default:
			in.NodeID = "10.7.7.7" // never associated
		}
		return Action{Op: "send", SMF: m.Idx, Msg: in}, true
	case "unknownpeer":
		in := &MsgIntent{T: pick(g.rng, "hb", "mod", "del"), Seq: uint32(1 + g.intn(50)), Slot: slot}
		return Action{Op: "send", SMF: m.Idx, Msg: in, From: "10.8.8.8:8805"}, true
	case "other":
		t := uint8(pick(g.rng, mtPFDMgmtReq, mtAssocUpdateReq, mtAssocRelReq, mtNodeReportReq, mtSessSetDelReq))
		return Action{Op: "send", SMF: m.Idx, Msg: &MsgIntent{T: "other", MsgType: t, Seq: g.seq(m)}}, true
	case "crossdup":
		// both directions number their requests independently and use the same addresses:
		// a request of the peer and a report of the UPF with the SAME sequence number, the
		// report's answer and its retransmission timer crossing inside a long event-loop
		// turn, then the peer's request once more
		mm, sl, x := g.anyLive()
		if x == nil || s.cfg.NoPeek {
			return Action{}, false
		}
		urrs := sortedRefs(x.Req, "urr")
		if len(urrs) == 0 {
			return Action{}, false
		}
		n := s.peek().TxSeq & 0xffffff
		ref := s.actNo
		free := -1
		for j := 0; j < s.cfg.NSlots; j++ {
			if g.liveOf(mm, j) == nil {
				free = j
			}
		}
		g.pending = append(g.pending,
			func() (Action, bool) {
				return Action{Op: "krep", KRep: []KRepItem{{SMF: mm.Idx, Slot: sl, URR: urrs[0], Cause: 2}}}, true
			},
			func() (Action, bool) {
				return Action{Op: "armans", Ans: &AnsIntent{Idx: 0, Mode: "ok"}, N: 3 + g.intn(3)}, true
			},
			func() (Action, bool) {
				if free < 0 {
					return Action{Op: "send", SMF: mm.Idx, Msg: &MsgIntent{T: "del", Seq: g.seq(mm), Slot: sl}}, true
				}
				return Action{Op: "send", SMF: mm.Idx, Msg: g.estMsg(mm, free)}, true
			},
			func() (Action, bool) { return Action{Op: "dup", Ref: ref}, true })
		return Action{Op: "send", SMF: mm.Idx, Msg: &MsgIntent{T: "hb", Seq: n}}, true
	case "flood":
		// one request, then more answered requests than any plausible pool of response
		// buffers holds, then the first request once more (inside the retention window)
		ref := s.actNo
		n := pick(g.rng, 17, 33, 65, 70, 100, 129)
		if s.cfg.Steps > 800 && g.chance(0.6) {
			// more requests inside one retention window than any table of them is likely to
			// be sized for
			n = pick(g.rng, 300, 520, 700)
		}
		for i := 0; i < n; i++ {
			g.pending = append(g.pending, func() (Action, bool) {
				mm := s.smfs[g.intn(len(s.smfs))]
				return Action{Op: "send", SMF: mm.Idx, Msg: &MsgIntent{T: "hb", Seq: g.seq(mm)}}, true
			})
		}
		g.pending = append(g.pending, func() (Action, bool) { return Action{Op: "dup", Ref: ref}, true })
		if x := g.liveOf(m, slot); x != nil && g.chance(0.5) {
			return Action{Op: "send", SMF: m.Idx, Msg: &MsgIntent{T: "mod", Seq: g.seq(m), Slot: slot}}, true
		}
		return Action{Op: "send", SMF: m.Idx, Msg: &MsgIntent{T: pick(g.rng, "hb", "assoc"), Seq: g.seq(m)}}, true
	case "widesess":
		// a session with many URRs: one tick, one kernel batch, one response then carries
		// tens to hundreds of usage reports (message sizes, per-message caps, batch limits)
		if g.liveOf(m, slot) != nil {
			return Action{Op: "send", SMF: m.Idx, Msg: &MsgIntent{T: "del", Seq: g.seq(m), Slot: slot}}, true
		}
		n := pick(g.rng, 13, 17, 18, 25, 40, 57, 60, 113, 129, 130, 200)
		per := uint32(pick(g.rng, 1, 2, 3))
		if g.chance(0.3) {
			per = 0 // mixed periods and non-periodic URRs
		}
		// a kernel batch over many of its URRs
		g.pending = append(g.pending, func() (Action, bool) {
			x := g.liveOf(m, slot)
			if x == nil {
				return Action{}, false
			}
			urrs := sortedRefs(x.Req, "urr")
			k := len(urrs)
			if k > 40 {
				k = 13 + g.intn(28)
			}
			var items []KRepItem
			for _, i := range g.rng.Perm(len(urrs))[:k] {
				bit := 1 + g.intn(15)
				items = append(items, KRepItem{SMF: m.Idx, Slot: slot, URR: urrs[i], Cause: 1 << uint(bit)})
			}
			return Action{Op: "krep", KRep: items}, len(items) > 0
		})
		// ticks
		for i, k := 0, g.intn(3); i < k; i++ {
			g.pending = append(g.pending, func() (Action, bool) {
				return Action{Op: "adv", Ms: int64(pick(g.rng, 1000, 2000, 3000)) + int64(g.intn(40))}, true
			})
		}
		if !s.cfg.AutoAnswer {
			// the requests of those ticks time out and are retransmitted
			g.pending = append(g.pending, func() (Action, bool) { return Action{Op: "adv", Ms: RT + int64(g.intn(20))}, true })
		}
		// many URRs queried, detached or removed by one request
		g.pending = append(g.pending, func() (Action, bool) {
			x := g.liveOf(m, slot)
			if x == nil {
				return Action{}, false
			}
			urrs := sortedRefs(x.Req, "urr")
			in := &MsgIntent{T: "mod", Seq: g.seq(m), Slot: slot}
			switch g.intn(3) {
			case 0:
				in.Query = urrs
			case 1:
				for _, u := range urrs[:len(urrs)/2] {
					in.Remove = append(in.Remove, RuleRef{"urr", u})
				}
			default:
				return Action{Op: "send", SMF: m.Idx, Msg: &MsgIntent{T: "del", Seq: g.seq(m), Slot: slot}}, true
			}
			return Action{Op: "send", SMF: m.Idx, Msg: in}, true
		})
		in := g.perioEst(m, slot, n, per)
		if pr := s.cfg.Profile; pr == "C08" || pr == "C09" {
			// profiles whose workload has no periodic reporting (hours of idle clock, "all
			// retries are over" checks): the many URRs report on thresholds only
			for i := range in.Create {
				if r := &in.Create[i]; r.Kind == "urr" {
					t := uint32(2)
					r.Trigger, r.Period, r.VolTh = &t, nil, &VolIntent{Flags: 1, Tot: 1000000}
				}
			}
		}
		// the PDR names a handful of the URRs, not only the first
		for i := range in.Create {
			if in.Create[i].Kind == "pdr" {
				var ids []uint32
				for _, j := range g.rng.Perm(n)[:1+g.intn(6)] {
					ids = append(ids, uint32(j+1))
				}
				in.Create[i].URRIDs = ids
			}
		}
		return Action{Op: "send", SMF: m.Idx, Msg: in}, true
	case "repflood":
		// many reports left unanswered at once, then the retransmission interval: every
		// one of them is sent again, the oldest after all the others were encoded
		n := pick(g.rng, 20, 50, 64, 80)
		for i := 0; i < n; i++ {
			g.pending = append(g.pending, g.krep)
		}
		g.pending = append(g.pending, func() (Action, bool) { return Action{Op: "adv", Ms: RT + int64(g.intn(20))}, true })
		return g.krep()
	case "overtake":
		if s.heldReq != nil || s.holdPS || len(s.model.registered()) == 0 {
			return Action{}, false
		}
		var maxP int64 = 1
		for p := range s.model.registered() {
			if v := int64(p / time.Second); v > maxP {
				maxP = v
			}
		}
		// the next tick's query is held ...
		g.pending = append(g.pending, func() (Action, bool) { return Action{Op: "adv", Ms: maxP*1000 + int64(g.intn(300))}, true })
		// ... registrations change meanwhile ...
		for i, n := 0, 1+g.intn(3); i < n; i++ {
			g.pending = append(g.pending, func() (Action, bool) {
				switch g.intn(4) {
				case 0:
					if mm, sl, x := g.anyLive(); x != nil {
						return Action{Op: "send", SMF: mm.Idx, Msg: &MsgIntent{T: "del", Seq: g.seq(mm), Slot: sl}}, true
					}
				case 1:
					mm := s.smfs[g.intn(len(s.smfs))]
					sl := g.intn(s.cfg.NSlots)
					if g.liveOf(mm, sl) == nil {
						return Action{Op: "send", SMF: mm.Idx, Msg: g.perioEst(mm, sl, 1+g.intn(3), 0)}, true
					}
				}
				return g.modURR()
			})
		}
		// ... and more ticks fall due before the answer comes
		g.pending = append(g.pending,
			func() (Action, bool) {
				return Action{Op: "adv", Ms: int64(pick(g.rng, 1, 2, 3))*1000 + int64(g.intn(300))}, true
			},
			func() (Action, bool) { return Action{Op: "releaseps"}, true })
		return Action{Op: "holdps"}, true
	case "cycle":
		// the same period group filled and emptied again and again
		p := uint32(pick(g.rng, 1, 2, 3))
		n := 3 + g.intn(8)
		for i := 0; i < n; i++ {
			g.pending = append(g.pending,
				func() (Action, bool) {
					if g.liveOf(m, slot) != nil {
						return Action{}, false
					}
					if pr := s.cfg.Profile; pr == "C10" || pr == "C11" || pr == "C12" {
						// sessions with several URRs of any kind, reported on before they go
						return Action{Op: "send", SMF: m.Idx, Msg: g.estMsg(m, slot)}, true
					}
					return Action{Op: "send", SMF: m.Idx, Msg: g.perioEst(m, slot, 1, p)}, true
				},
				func() (Action, bool) {
					if pr := s.cfg.Profile; (pr == "C10" || pr == "C11" || pr == "C12") && g.chance(0.7) {
						return g.krep()
					}
					return Action{}, false
				},
				func() (Action, bool) {
					if g.liveOf(m, slot) == nil {
						return Action{}, false
					}
					return Action{Op: "send", SMF: m.Idx, Msg: &MsgIntent{T: "del", Seq: g.seq(m), Slot: slot}}, true
				})
		}
		if g.liveOf(m, slot) != nil {
			return Action{Op: "send", SMF: m.Idx, Msg: &MsgIntent{T: "del", Seq: g.seq(m), Slot: slot}}, true
		}
		return Action{}, false
	case "sameseq":
		// another peer uses a sequence number this peer used recently
		if len(s.smfs) < 2 || len(g.sent) == 0 {
			return Action{}, false
		}
		ref := g.sent[len(g.sent)-1-g.intn(min(3, len(g.sent)))]
		dg := s.dgs[ref]
		if dg == nil || dg.Intent == nil {
			return Action{}, false
		}
		other := s.smfs[(dg.SMF+1)%len(s.smfs)]
		return Action{Op: "send", SMF: other.Idx, Msg: &MsgIntent{T: pick(g.rng, "hb", "assoc"), Seq: dg.Intent.Seq}}, true
	case "dup":
		if len(g.sent) == 0 {
			return Action{}, false
		}
		k := len(g.sent) - 1 - g.intn(min(6, len(g.sent)))
		return Action{Op: "dup", Ref: g.sent[k]}, true
	case "hold":
		a, ok := g.heldSend(m, slot)
		return a, ok
	case "deliver":
		if len(g.held) == 0 {
			return Action{}, false
		}
		k := g.intn(len(g.held))
		ref := g.held[k]
		g.held = append(g.held[:k], g.held[k+1:]...)
		g.sent = append(g.sent, ref)
		return Action{Op: "deliver", Ref: ref}, true
	case "adv":
		return Action{Op: "adv", Ms: int64(1 + g.intn(1500))}, true
	case "advbig":
		return Action{Op: "adv", Ms: int64(3600000 * (1 + g.intn(5)))}, true
	case "advwin":
		// clearly inside or clearly after the retention window
		if g.chance(0.5) {
			return Action{Op: "adv", Ms: W + 5 + int64(g.intn(50))}, true
		}
		return Action{Op: "adv", Ms: max64(1, W/2-5)}, true
	case "advrt":
		return Action{Op: "adv", Ms: RT + int64(g.intn(20))}, true
	case "advshort":
		return Action{Op: "adv", Ms: int64(pick(g.rng, 500, 1000, 1500, 3100))}, true
	case "advp":
		if s.cfg.LongPeriods {
			return Action{Op: "adv", Ms: int64(pick(g.rng, 300, 301, 600, 3600, 3605, 86100, 86400, 7200, 900))*1000 + int64(g.intn(50))}, true
		}
		return Action{Op: "adv", Ms: int64(pick(g.rng, 1000, 2000, 3000, 5000, 10000, 500, 30000))}, true
	case "fault":
		if g.s.cfg.faultOn("dp-far") {
			return Action{Op: "fault", Fault: &FaultSpec{Op: "add-update", Kind: "far", Skip: g.intn(2), Errno: pick(g.rng, 12, 16, 22), Tag: "farupd"}}, true
		}
		if g.s.cfg.faultOn("dp-perio") {
			if g.chance(0.5) {
				return Action{Op: "fault", Fault: &FaultSpec{Op: "multi", Skip: g.intn(3), Errno: pick(g.rng, 12, 16, 2), Tag: "tickq"}}, true
			}
			f := &FaultSpec{Op: "del", Kind: "urr", Skip: g.intn(2), Errno: pick(g.rng, 2, 16, 12), Tag: "delurr"}
			if g.chance(0.4) {
				f.Errno, f.Empty = 0, true
			}
			return Action{Op: "fault", Fault: f}, true
		}
		if g.s.cfg.faultOn("dp-empty-del") {
			// the removal of a URR answered without the final report attributes
			return Action{Op: "fault", Fault: &FaultSpec{Op: "del", Kind: "urr", Skip: g.intn(3), Empty: true}}, true
		}
		// no removal faults: C01 quantifies over failing creates, updates and queries; a
		// removal the data plane refuses leaves a rule behind by definition
		f := &FaultSpec{Op: pick(g.rng, "add-create", "add-create", "add-update", "report", "multi", "get", "any"), Skip: g.intn(6),
			Errno: pick(g.rng, 17, 2, 12, 16, 22), Late: g.chance(0.35)}
		if g.chance(0.5) {
			f.Kind = pick(g.rng, kinds...)
		}
		if f.Op == "report" || f.Op == "multi" {
			f.Kind = ""
			f.Late = false
		}
		return Action{Op: "fault", Fault: f}, true
	case "krep", "krepbad":
		return g.krep()
	case "krepburst", "armburst":
		// one report for (almost) every live session, raw SEIDs so that sessions no slot
		// points at any more are included
		var items []KRepItem
		for _, up := range g.s.model.liveSEIDs() {
			x := g.s.model.sess[up]
			urrs := sortedRefs(x.Req, "urr")
			if len(urrs) == 0 || g.chance(0.1) {
				continue
			}
			items = append(items, KRepItem{Slot: -1, SEID: up, URR: urrs[g.intn(len(urrs))], Cause: 2})
		}
		if len(items) == 0 {
			return Action{}, false
		}
		op := "krep"
		if g.chance(0.5) {
			op = "armburst"
		}
		return Action{Op: op, KRep: items}, true
	case "kbuf", "kbufbad", "kbufnocp":
		return g.kbuf()
	case "detach":
		k := &KBufIntent{Slot: -1, SEID: uint64(1 + g.intn(6)), PDR: uint16(1 + g.intn(4)), Action: uint16(pick(g.rng, 4, 4, 12)), Len: 8 + g.intn(64), Count: 1 + g.intn(3)}
		if m, sl, x := g.anyLive(); x != nil && g.chance(0.5) {
			k.Slot, k.SMF = sl, m.Idx
			if pdrs := sortedRefs(x.Req, "pdr"); len(pdrs) > 0 {
				k.PDR = uint16(pdrs[g.intn(len(pdrs))])
			}
		}
		d := 1 + g.intn(120) // lands inside one of the next event-loop turns
		if g.chance(0.4) {
			d = (1 + g.intn(3000)) * 1000000
		}
		return Action{Op: "detach", KBuf: k, N: d}, true
	case "armkbuf":
		a, ok := g.kbuf()
		if !ok || a.KBuf == nil {
			return Action{}, false
		}
		a.KBuf.Count = 2 + g.intn(6)
		return Action{Op: "armburst", KBuf: a.KBuf}, true
	case "kbufburst":
		// a burst well beyond a few packets: around and beyond plausible queue sizes
		a, ok := g.kbuf()
		if ok && a.KBuf != nil {
			a.KBuf.Count = pick(g.rng, 20, 33, 40, 70, 130, 260, 515, 600, 1100)
			a.KBuf.Len = 8 + g.intn(24)
			if a.KBuf.Action&8 != 0 && a.KBuf.Count > 100 {
				a.KBuf.Action = 4 // keep the report traffic of huge bursts down
			}
		}
		return a, ok
	case "ans":
		return Action{Op: "ans", Ans: &AnsIntent{Idx: g.intn(4), Mode: pick(g.rng, "ok", "ok", "ok", "wrongpeer", "wrongseq", "seid0")}}, true
	case "armans":
		return Action{Op: "armans", Ans: &AnsIntent{Idx: g.intn(4), Mode: "ok"}, N: 1 + g.intn(6)}, true
	case "ansseid0":
		return Action{Op: "ans", Ans: &AnsIntent{Idx: g.intn(4), Mode: "seid0"}}, true
	case "gtpuerr":
		return Action{Op: "gtpuerr", N: 1 + g.intn(2)}, true
	case "n4err":
		return Action{Op: "n4err", N: 1 + g.intn(2)}, true
	case "fwdrep":
		if g.s.pendingReports() == 0 {
			return Action{}, false
		}
		return Action{Op: "fwdrep", N: g.intn(g.s.pendingReports())}, true
	}
	return g.special()
}

func max64(a, b int64) int64 {
	if a > b {
		return a
	}
	return b
}

func (s *Sim) srvSlots() int { return s.peek().Slots }

func (g *Gen) heldSend(m *SMF, slot int) (Action, bool) {
	in := &MsgIntent{T: pick(g.rng, "hb", "hb", "mod", "del"), Seq: g.seq(m), Slot: slot}
	return Action{Op: "send", SMF: m.Idx, Msg: in, Net: pick(g.rng, "hold", "hold", "drop")}, true
}

func (g *Gen) krep() (Action, bool) {
	n := 1 + g.intn(3)
	var items []KRepItem
	for i := 0; i < n; i++ {
		m, sl, x := g.anyLive()
		if x == nil {
			return Action{}, false
		}
		urrs := sortedRefs(x.Req, "urr")
		it := KRepItem{SMF: m.Idx, Slot: sl}
		if len(urrs) > 0 && g.chance(0.85) {
			it.URR = urrs[g.intn(len(urrs))]
		} else {
			it.URR = uint32(1 + g.intn(5))
		}
		bit := g.intn(18)
		if bit == 0 || bit == 16 {
			bit = 1
		}
		it.Cause = 1 << uint(bit)
		if g.chance(0.1) {
			it.Slot = -1
			it.SEID = pick(g.rng, uint64(0), 99, 1<<40)
			if len(g.s.model.ended) > 0 && g.chance(0.5) {
				it.SEID = g.s.model.ended[g.intn(len(g.s.model.ended))].UP
			}
		}
		items = append(items, it)
	}
	return Action{Op: "krep", KRep: items}, true
}

func (g *Gen) kbuf() (Action, bool) {
	m, sl, x := g.anyLive()
	if x == nil {
		return Action{}, false
	}
	pdrs := sortedRefs(x.Req, "pdr")
	k := &KBufIntent{SMF: m.Idx, Slot: sl, Action: uint16(pick(g.rng, 4, 12, 12, 4)), Len: 8 + g.intn(pick(g.rng, 8, 64, 1400)), Count: 1}
	if g.chance(0.3) {
		// boundary lengths: 4-byte alignment, around common MTUs, beyond them
		k.Len = pick(g.rng, 8, 9, 10, 11, 12, 13, 1391, 1392, 1393, 1400, 1401, 1472, 1480, 1484, 1485, 1488, 1489, 1492, 1499, 1500, 1501, 1512, 2048, 8972, 9000, 65000) + g.intn(2)
	}
	if len(pdrs) > 0 && g.chance(0.9) {
		k.PDR = uint16(pdrs[g.intn(len(pdrs))])
	} else {
		k.PDR = uint16(1 + g.intn(6))
	}
	if g.chance(0.08) {
		k.Slot = -1
		k.SEID = pick(g.rng, uint64(0), 77, 1<<33)
		if len(g.s.model.ended) > 0 {
			k.SEID = g.s.model.ended[g.intn(len(g.s.model.ended))].UP
		}
	}
	if g.chance(0.25) {
		k.Count = 2 + g.intn(5)
	}
	return Action{Op: "kbuf", KBuf: k}, true
}

// special: profile-specific actions.
func (g *Gen) special() (Action, bool) { return Action{}, false }

// fill: the many-sessions scenario. Cfg.Many small sessions are established round-robin by
// the peers (the session table grows to that size), then released in an order chosen to
// leave the table and its free list in unusual shapes - the top of the table last, or the
// slot below the top first, ranges from the top downwards, a random subset -, then a few
// are established again. After that the run goes on as usual (probes, deletions,
// re-associations) on the large population.
func (g *Gen) fill() {
	s := g.s
	n := s.cfg.Many
	type ref struct{ m, sl int }
	var order []ref
	for i := 0; i < n; i++ {
		r := ref{i % len(s.smfs), i / len(s.smfs)}
		order = append(order, r)
		g.pending = append(g.pending, func() (Action, bool) {
			m := s.smfs[r.m]
			g.cp++
			in := &MsgIntent{T: "est", Seq: g.seq(m), Slot: r.sl, CPSEID: g.cp<<16 | uint64(m.Idx+1)}
			in.Create = append(in.Create, RuleIntent{Kind: "far", ID: 1, Action: u16p(2), ActionLen: 1},
				RuleIntent{Kind: "pdr", ID: 1, Prec: u32p(uint32(r.sl + 1)), SrcIf: u8p(1), FARID: u32p(1)})
			return Action{Op: "send", SMF: m.Idx, Msg: in}, true
		})
	}
	del := func(r ref) {
		g.pending = append(g.pending, func() (Action, bool) {
			m := s.smfs[r.m]
			if g.liveOf(m, r.sl) == nil {
				return Action{}, false
			}
			return Action{Op: "send", SMF: m.Idx, Msg: &MsgIntent{T: "del", Seq: g.seq(m), Slot: r.sl}}, true
		})
	}
	// sessions were established in order, so order[i] holds the (i+1)-th slot of the table
	// as long as nothing was released before (SEIDs are the UPF's choice: this is a bias,
	// not an assumption)
	top := n - 1
	switch g.intn(4) {
	case 0:
		// the slot below the top, a low one, then the top
		del(order[top-1])
		del(order[g.intn(n/2)])
		del(order[top])
	case 1:
		// a range from somewhere in the lower half up to the top, in ascending order except
		// that the top goes last; a low one in between
		from := g.intn(n/2 + 1)
		for i := from; i < top; i++ {
			del(order[i])
			if i == (from+top)/2 && from > 0 {
				del(order[g.intn(from)])
			}
		}
		del(order[top])
	case 2:
		// a range from the top downwards
		k := 1 + g.intn(n-1)
		for i := top; i > top-k; i-- {
			del(order[i])
		}
	default:
		// a random subset, in random order
		for _, i := range g.rng.Perm(n)[:n/4+g.intn(n/2)] {
			del(order[i])
		}
	}
	for i, k := 0, 3+g.intn(4); i < k; i++ {
		g.pending = append(g.pending, func() (Action, bool) {
			// any free slot of any peer
			for _, j := range g.rng.Perm(n) {
				r := order[j]
				if m := s.smfs[r.m]; g.liveOf(m, r.sl) == nil {
					return Action{Op: "send", SMF: m.Idx, Msg: g.estMsg(m, r.sl)}, true
				}
			}
			return Action{}, false
		})
	}
}

// somePeriod: a measurement period from a small set, so that period groups are shared; in a
// "long periods" run minutes to days, some of them close together (the fake clock makes an
// hour as cheap as a second).
func (g *Gen) somePeriod() uint32 {
	if g.s.cfg.LongPeriods {
		return uint32(pick(g.rng, 300, 301, 600, 3600, 3605, 86100, 86400))
	}
	return uint32(pick(g.rng, 1, 2, 3, 5, 10))
}

// perioEst: a session with n periodic URRs (ids 1..n), periods from a small set so
// that groups are shared between sessions.
func (g *Gen) perioEst(m *SMF, slot int, n int, period uint32) *MsgIntent {
	g.cp++
	in := &MsgIntent{T: "est", Seq: g.seq(m), Slot: slot, CPSEID: g.cp<<16 | uint64(m.Idx+1)}
	in.Create = append(in.Create, RuleIntent{Kind: "far", ID: 1, Action: u16p(2), ActionLen: 1})
	for i := 1; i <= n; i++ {
		p := period
		if p == 0 {
			p = g.somePeriod()
		}
		t := uint32(1)
		if g.chance(0.15) && period == 0 {
			t = 2 // not periodic
		}
		meth := uint8(pick(g.rng, 2, 3, 1, 7))
		in.Create = append(in.Create, RuleIntent{Kind: "urr", ID: uint32(i), Method: &meth, Trigger: &t, TrigLen: pick(g.rng, 2, 3), Period: &p, MInfo: u8p(uint8(pick(g.rng, 0, 0x10)))})
	}
	in.Create = append(in.Create, RuleIntent{Kind: "pdr", ID: 1, Prec: u32p(1), SrcIf: u8p(1), FARID: u32p(1), URRIDs: []uint32{1}})
	return in
}

func (g *Gen) modURR() (Action, bool) {
	m, sl, x := g.anyLive()
	if x == nil {
		return Action{}, false
	}
	in := &MsgIntent{T: "mod", Seq: g.seq(m), Slot: sl}
	have := sortedRefs(x.Req, "urr")
	if len(have) > 0 && g.chance(0.25) {
		// swap: one URR leaves a period group and another joins the same group in one
		// message (the group may empty and refill back to back)
		u := have[g.intn(len(have))]
		if it := x.Intent[RuleRef{"urr", u}]; it != nil && it.Period != nil && it.Trigger != nil && *it.Trigger&1 != 0 {
			for c := uint32(1); c <= 8; c++ {
				if !x.Req[RuleRef{"urr", c}] {
					p, t, meth := *it.Period, uint32(1), uint8(2)
					in.Remove = append(in.Remove, RuleRef{"urr", u})
					in.Create = append(in.Create, RuleIntent{Kind: "urr", ID: c, Method: &meth, Trigger: &t, TrigLen: 2, Period: &p, MInfo: u8p(0)})
					return Action{Op: "send", SMF: m.Idx, Msg: in}, true
				}
			}
		}
	}
	if len(have) > 0 && g.chance(0.55) {
		in.Remove = append(in.Remove, RuleRef{"urr", have[g.intn(len(have))]})
	} else {
		var free []uint32
		for c := 1; c <= 8; c++ {
			if !x.Req[RuleRef{"urr", uint32(c)}] {
				free = append(free, uint32(c))
			}
		}
		if len(free) == 0 {
			return Action{}, false
		}
		p := g.somePeriod()
		t := uint32(1)
		meth := uint8(2)
		if g.chance(0.2) {
			// a URR without the periodic trigger (its id may have been periodic before)
			t = 2
			in.Create = append(in.Create, RuleIntent{Kind: "urr", ID: free[g.intn(len(free))], Method: &meth, Trigger: &t, TrigLen: 2, VolTh: &VolIntent{Flags: 1, Tot: 1000000}, MInfo: u8p(0)})
			return Action{Op: "send", SMF: m.Idx, Msg: in}, true
		}
		in.Create = append(in.Create, RuleIntent{Kind: "urr", ID: free[g.intn(len(free))], Method: &meth, Trigger: &t, TrigLen: 2, Period: &p, MInfo: u8p(0)})
	}
	return Action{Op: "send", SMF: m.Idx, Msg: in}, true
}

// bufSession: a session shaped for buffering: downlink PDRs -> FARs that buffer.
func (g *Gen) bufEst(m *SMF, slot int) *MsgIntent {
	g.cp++
	in := &MsgIntent{T: "est", Seq: g.seq(m), Slot: slot, CPSEID: g.cp<<16 | uint64(m.Idx+1)}
	nfar := 1 + g.intn(3)
	for f := 1; f <= nfar; f++ {
		act := uint16(pick(g.rng, 4, 12, 12, 4, 2))
		far := RuleIntent{Kind: "far", ID: uint32(f), Action: &act, ActionLen: pick(g.rng, 1, 2)}
		if g.chance(0.85) {
			far.FP = &FPIntent{DestIf: u8p(0), OHC: &OHCIntent{Desc: 0x0100, TEID: uint32(g.bv(32)), IP: g.ip4()}}
		}
		in.Create = append(in.Create, far)
	}
	for q := 1; q <= 2; q++ {
		qer := RuleIntent{Kind: "qer", ID: uint32(q), Gate: u8p(0)}
		if g.chance(0.8) {
			qer.QFI = u8p(uint8(g.intn(64)))
		}
		in.Create = append(in.Create, qer)
	}
	npdr := 1 + g.intn(4)
	for p := 1; p <= npdr; p++ {
		pdr := RuleIntent{Kind: "pdr", ID: uint32(p), Prec: u32p(uint32(100 + p)), SrcIf: u8p(1), FARID: u32p(uint32(1 + g.intn(nfar)))}
		ip := g.ip4()
		pdr.UEIP = &ip
		switch g.intn(4) {
		case 0:
		case 1:
			pdr.QERIDs = []uint32{1}
		case 2:
			pdr.QERIDs = []uint32{2, 1}
		default:
			pdr.QERIDs = []uint32{1, 2}
		}
		in.Create = append(in.Create, pdr)
	}
	return in
}

func (g *Gen) farFlip() (Action, bool) {
	m, sl, x := g.anyLive()
	if x == nil {
		return Action{}, false
	}
	fars := sortedRefs(x.Req, "far")
	if len(fars) == 0 {
		return Action{}, false
	}
	act := uint16(pick(g.rng, 2, 2, 2, 1, 4, 12, 6, 3, 10))
	far := RuleIntent{Kind: "far", ID: fars[g.intn(len(fars))], Action: &act, ActionLen: pick(g.rng, 1, 2)}
	if g.chance(0.4) {
		far.FP = &FPIntent{DestIf: u8p(0), OHC: &OHCIntent{Desc: 0x0100, TEID: uint32(g.bv(32)), IP: g.ip4()}}
	}
	return Action{Op: "send", SMF: m.Idx, Msg: &MsgIntent{T: "mod", Seq: g.seq(m), Slot: sl, Update: []RuleIntent{far}}}, true
}
