//go:build verif

package verifsim

// C10 / C11 / C12: usage reports as the control plane sees them, matched against what
// the simulated data plane measured.

import (
	"fmt"
	"sort"
)

const ntpOffset = 2208988800

// usage-report-trigger bit positions by name (TS 29.244 8.2.41), bit 0 = octet 5 bit 1
var usarBit = map[string]uint{
	"PERIO": 0, "VOLTH": 1, "TIMTH": 2, "QUHTI": 3, "START": 4, "STOPT": 5, "DROTH": 6, "IMMER": 7,
	"VOLQU": 8, "TIMQU": 9, "LIUSA": 10, "TERMR": 11, "MONIT": 12, "ENVCL": 13, "MACAR": 14, "EVETH": 15,
	"EVEQU": 16, "TEBUR": 17, "IPMJL": 18, "QUVTI": 19, "EMRRE": 20, "UPINT": 21,
}

// reporting-trigger bit positions by name (TS 29.244 8.2.19)
var rptBit = map[string]uint{
	"PERIO": 0, "VOLTH": 1, "TIMTH": 2, "QUHTI": 3, "START": 4, "STOPT": 5, "DROTH": 6, "LIUSA": 7,
	"VOLQU": 8, "TIMQU": 9, "ENVCL": 10, "MACAR": 11, "EVETH": 12, "EVEQU": 13, "IPMJL": 14, "QUVTI": 15,
	"REEMR": 16, "UPINT": 17,
}

// usarForCause maps a single reporting-trigger cause to the usage-report trigger of the
// same name (0 if there is none).
func usarForCause(cause uint32) uint32 {
	for name, b := range rptBit {
		if cause == 1<<b {
			if ub, ok := usarBit[name]; ok {
				return 1 << ub
			}
			return 0
		}
	}
	return 0
}

type URep struct {
	Carrier string // srr smr sdr
	Pkt     *OutPkt
	Msg     *PMsg
	Sess    *MSess
	Cands   []*MSess // sessions the wire content could belong to (same CP SEID and peer)
	URRID   uint32
	Seqn    uint32
	Trigger uint32
	HasTime bool
	Start   uint32
	End     uint32
	HasVol  bool
	VolFlag uint8
	Vol     [6]uint64
	HasDur  bool
	Raw     TLV
	matched bool
}

func (u *URep) String() string {
	return fmt.Sprintf("{%s urr=%d seqn=%d trig=%#x time=%v vol=%v/%#x dur=%v}", u.Carrier, u.URRID, u.Seqn, u.Trigger, u.HasTime, u.HasVol, u.VolFlag, u.HasDur)
}

func parseURep(t TLV) (*URep, error) {
	u := &URep{Raw: t}
	kids, err := parseTLVs(t.V)
	if err != nil {
		return nil, err
	}
	seen := map[uint16]int{}
	for _, k := range kids {
		seen[k.T]++
		switch k.T {
		case ieURRID:
			if len(k.V) != 4 {
				return nil, fmt.Errorf("URR ID of %d octets", len(k.V))
			}
			u.URRID = be.Uint32(k.V)
		case ieURSEQN:
			if len(k.V) != 4 {
				return nil, fmt.Errorf("UR-SEQN of %d octets", len(k.V))
			}
			u.Seqn = be.Uint32(k.V)
		case ieUsageRepTrigger:
			if len(k.V) < 2 || len(k.V) > 3 {
				return nil, fmt.Errorf("Usage Report Trigger of %d octets", len(k.V))
			}
			for i, c := range k.V {
				u.Trigger |= uint32(c) << (8 * uint(i))
			}
		case ieStartTime:
			u.HasTime = true
			u.Start = be.Uint32(k.V)
		case ieEndTime:
			u.End = be.Uint32(k.V)
		case ieVolumeMeas:
			u.HasVol = true
			if len(k.V) < 1 {
				return nil, fmt.Errorf("empty Volume Measurement")
			}
			u.VolFlag = k.V[0]
			off := 1
			for i := 0; i < 6; i++ {
				if u.VolFlag&(1<<uint(i)) != 0 {
					if off+8 > len(k.V) {
						return nil, fmt.Errorf("Volume Measurement too short for flags %#x", u.VolFlag)
					}
					u.Vol[i] = be.Uint64(k.V[off:])
					off += 8
				}
			}
			if off != len(k.V) {
				return nil, fmt.Errorf("Volume Measurement has %d trailing octets", len(k.V)-off)
			}
		case ieDurationMeas:
			u.HasDur = true
		}
	}
	if seen[ieURRID] != 1 || seen[ieURSEQN] != 1 || seen[ieUsageRepTrigger] != 1 {
		return nil, fmt.Errorf("usage report without exactly one URR ID / UR-SEQN / trigger")
	}
	return u, nil
}

// collectUReps extracts the usage reports emitted in this step, in emission order.
func (s *Sim) collectUReps(ctx *StepCtx) []*URep {
	m := s.model
	var out []*URep
	for _, o := range ctx.N4 {
		if len(o.B) < 2 {
			continue
		}
		var carrier string
		var ieT uint16
		switch o.B[1] {
		case mtSessReportReq:
			carrier, ieT = "srr", ieUsageReportSRR
		case mtSessModRsp:
			carrier, ieT = "smr", ieUsageReportSMR
		case mtSessDelRsp:
			carrier, ieT = "sdr", ieUsageReportSDR
		default:
			continue
		}
		pm, err := parsePMsg(o.B)
		if err != nil {
			continue
		}
		if carrier == "srr" {
			first := false
			for _, u := range ctx.newUps {
				if u.Seq == pm.Seq && u.Dst == o.Dst && len(u.Sends) >= 1 && u.Sends[0] == o.At {
					first = true
				}
			}
			if !first {
				continue // retransmission: the same emission
			}
		} else if ctx.Dup {
			continue
		}
		var x *MSess
		var cands []*MSess
		if carrier == "srr" {
			for _, up := range m.liveSEIDs() {
				c := m.sess[up]
				if c.CP == pm.SEID && s.nodeDst(c.Node) == o.Dst {
					cands = append(cands, c)
				}
			}
			for _, c := range ctx.Ended {
				// a session that ended in this very step may have reported just before
				if c.CP == pm.SEID && s.nodeDst(c.Node) == o.Dst {
					cands = append(cands, c)
				}
			}
			if len(cands) == 1 {
				x = cands[0]
			}
		} else {
			x = ctx.Target
		}
		for _, t := range pm.findAll(ieT) {
			u, err := parseURep(t)
			if err != nil {
				s.violateAny([]string{"C10", "C11", "C12"}, "report.wellformed", "report:malformed", "malformed usage report in %s: %v (% x)", carrier, err, t.V)
				continue
			}
			u.Carrier, u.Pkt, u.Msg, u.Sess, u.Cands = carrier, o, pm, x, cands
			out = append(out, u)
		}
	}
	return out
}

func (s *Sim) checkReports(ctx *StepCtx) {
	if !s.oracleOn("C10") && !s.oracleOn("C11") && !s.oracleOn("C12") {
		return
	}
	if s.cfg.Profile == "C15" && s.model.perioTaint {
		return
	}
	if s.stopped1 {
		return
	}
	ureps := s.collectUReps(ctx)
	s.checkC11(ctx, ureps)
	s.checkC10(ctx, ureps)
	s.checkC12(ctx, ureps)
}

// ---- C11 -------------------------------------------------------------------------------

func (s *Sim) checkC11(ctx *StepCtx, ureps []*URep) {
	carriers := map[string]bool{}
	for _, u := range ureps {
		x := u.Sess
		if x == nil {
			continue // owner not identifiable from the wire: C10's business
		}
		mu := x.URR[u.URRID]
		if mu == nil {
			continue
		}
		carriers[u.Carrier] = true
		if mu.SeqTaint {
			mu.NextSeq = u.Seqn + 1
			mu.SeqTaint = false
			continue
		}
		if u.Seqn != mu.NextSeq {
			kind := "gap"
			if u.Seqn < mu.NextSeq {
				kind = "repeat"
			}
			s.violate("C11", "urseqn.sequence", "urseqn:"+kind+":"+u.Carrier,
				"session %#x URR %d (incarnation %d): UR-SEQN %d in %s, expected %d", x.UP, u.URRID, mu.Inc, u.Seqn, u.Carrier, mu.NextSeq)
		}
		mu.NextSeq++
		if mu.NextSeq >= 3 {
			s.probe("c11.seq.ge2", 1)
		}
	}
	if len(carriers) > 0 {
		s.emu.Lock()
		if s.c11carriers == nil {
			s.c11carriers = map[string]bool{}
		}
		for c := range carriers {
			s.c11carriers[c] = true
		}
		n := len(s.c11carriers)
		s.probeM["c11.carriers"] = n
		s.emu.Unlock()
	}
}

// ---- C10 -------------------------------------------------------------------------------

func (s *Sim) stepFaulted(ctx *StepCtx) bool {
	for _, r := range ctx.Reqs {
		if r.Fault {
			return true
		}
	}
	for _, o := range ctx.N4 {
		if o.Err {
			return true
		}
	}
	return false
}

func (s *Sim) checkC10(ctx *StepCtx, ureps []*URep) {
	if !s.oracleOn("C10") {
		return
	}
	m := s.model
	// a report that is dropped is dropped: no Session Report Request announcing usage
	// reports without carrying one
	for _, u := range ctx.newUps {
		rt, ok := u.Msg.find(ieReportType)
		if ok && len(rt.V) >= 1 && rt.V[0]&2 != 0 {
			if _, has := u.Msg.find(ieUsageReportSRR); !has {
				s.violate("C10", "report.dropped-silently", "report:empty-request",
					"Session Report Request seq=%d to %s has Report Type USAR but carries no Usage Report IE (% x)", u.Seq, u.Dst, u.B)
			}
		}
	}
	endedHere := map[uint64]*MSess{}
	for _, e := range ctx.Ended {
		endedHere[e.UP] = e
	}
	type exp struct {
		k    *KReport
		x    *MSess
		flag uint32
		via  string
		hit  bool
		opt  bool // produced asynchronously in the step that ended its session: served before or after the end
	}
	var exps []*exp
	for _, k := range ctx.KReps {
		if k.Lost {
			continue
		}
		x := m.sess[k.SEID]
		opt := false
		if x == nil {
			if e := endedHere[k.SEID]; e != nil && ctx.Kind == "deliver" && ctx.Dg.Intent != nil && ctx.Dg.Intent.T == "del" {
				x = e // final reports travel in the Deletion Response
				// ... but one a tick or the kernel produced on its own in this very step
				// reaches the event loop before or after the session is gone
				opt = k.Via == "multi" || k.Via == "mcast"
			} else if e != nil && (k.Via == "multi" || k.Via == "mcast") {
				// likewise when the session ended in this step in any other way
				// (re-association, SEID-0 answer): served before the end it is delivered,
				// after it it is dropped
				x, opt = e, true
			}
		}
		if x == nil {
			s.probe("c10.dropped.unknown", 1)
			continue // unknown or ended session: must be dropped
		}
		if _, ok := x.URR[k.URRID]; !ok {
			s.probe("c10.dropped.unknown", 1)
			continue // URR unknown to the session: must be dropped
		}
		if m.delFaulted[RuleKey{"urr", x.UP, uint64(k.URRID)}] {
			continue
		}
		if (k.Via == "multi" || k.Via == "mcast") && ctx.Kind == "deliver" && ctx.Dg.Intent != nil {
			// likewise for a URR this very message removes
			for _, r := range ctx.Dg.Intent.Remove {
				if r.Kind == "urr" && r.ID == k.URRID && ctx.Target == x {
					opt = true
				}
			}
		}
		e := &exp{k: k, x: x, via: k.Via, opt: opt}
		switch k.Via {
		case "mcast":
			e.flag = usarForCause(k.Trigger)
		case "multi":
			e.flag = 1 << usarBit["PERIO"]
		}
		exps = append(exps, e)
	}
	for _, u := range ureps {
		if u.Sess != nil && m.delFaulted[RuleKey{"urr", u.Sess.UP, uint64(u.URRID)}] {
			continue // its removal was refused by the data plane earlier: outside what is judged
		}
		// find the measurement this report carries
		var hit *exp
		for _, e := range exps {
			if e.hit || e.k.URRID != u.URRID {
				continue
			}
			if u.Sess != nil && e.x != u.Sess {
				continue
			}
			if u.Sess == nil && len(u.Cands) > 0 {
				in := false
				for _, c := range u.Cands {
					if c == e.x {
						in = true
					}
				}
				if !in {
					continue
				}
			}
			if u.HasTime && (u.Start != uint32(e.k.Start.Unix()+ntpOffset) || u.End != uint32(e.k.End.Unix()+ntpOffset)) {
				continue
			}
			if u.HasVol && u.VolFlag&1 != 0 && u.Vol[0] != e.k.Vol[0] {
				continue
			}
			hit = e
			break
		}
		if hit == nil {
			s.violate("C10", "report.measured", "report:unmeasured:"+u.Carrier,
				"usage report %s for URR %d (session %v) matches nothing the data plane measured in this step; measured: %s", u, u.URRID, sessName(u.Sess), kreps(ctx.KReps))
			continue
		}
		hit.hit = true
		u.matched = true
		s.checkC10Fields(ctx, u, hit.k, hit.x, hit.flag)
		if hit.via == "mcast" || hit.via == "multi" {
			s.probe("c10.mcast.delivered", 1)
		} else {
			s.probe("c10.pulled.delivered", 1)
		}
	}
	if s.stepFaulted(ctx) {
		return
	}
	for _, e := range exps {
		if !e.hit && !e.opt {
			s.violate("C10", "report.delivered", "report:lost:"+e.via,
				"the data plane produced a usage report for session %#x URR %d (via %s, cause %#x) but it never reached the control plane; reports seen: %d",
				e.x.UP, e.k.URRID, e.via, e.k.Trigger, len(ureps))
		}
	}
}

func sessName(x *MSess) string {
	if x == nil {
		return "?"
	}
	return fmt.Sprintf("%#x", x.UP)
}

func kreps(ks []*KReport) string {
	var parts []string
	for _, k := range ks {
		parts = append(parts, fmt.Sprintf("{seid=%#x urr=%d via=%s start=%d vol=%d}", k.SEID, k.URRID, k.Via, k.Start.Unix()+ntpOffset, k.Vol[0]))
	}
	sort.Strings(parts)
	return fmt.Sprint(parts)
}

func (s *Sim) checkC10Fields(ctx *StepCtx, u *URep, k *KReport, x *MSess, flag uint32) {
	mu := x.URR[u.URRID]
	// addressed to the owner, with the peer's SEID
	if u.Carrier == "srr" {
		if u.Pkt.Dst != s.nodeDst(x.Node) {
			s.violate("C10", "report.owner", "report:wrong-owner", "report of session %#x sent to %s, owner is %s", x.UP, u.Pkt.Dst, x.Node)
		}
		if u.Msg.SEID != x.CP {
			s.violate("C10", "report.peer-seid", "report:wrong-seid", "report of session %#x carries header SEID %#x, the peer chose %#x", x.UP, u.Msg.SEID, x.CP)
		}
	}
	if flag != 0 && u.Trigger&flag == 0 {
		s.violate("C10", "report.trigger", fmt.Sprintf("report:trigger:%s", k.Via),
			"report for URR %d (via %s, cause %#x) carries trigger %#x, expected bit %#x", u.URRID, k.Via, k.Trigger, u.Trigger, flag)
	}
	if k.Via == "mcast" && flag != 0 && u.Trigger != flag {
		s.violate("C10", "report.trigger-only", "report:trigger-extra",
			"report for URR %d cause %#x carries trigger %#x, expected exactly %#x", u.URRID, k.Trigger, u.Trigger, flag)
	}
	noTime := u.Trigger&(1<<usarBit["START"]|1<<usarBit["STOPT"]|1<<usarBit["MACAR"]) != 0
	if !noTime {
		if !u.HasTime {
			s.violate("C10", "report.times", "report:no-times", "report for URR %d lacks start / end time", u.URRID)
		}
		if u.Start != uint32(k.Start.Unix()+ntpOffset) || u.End != uint32(k.End.Unix()+ntpOffset) {
			s.violate("C10", "report.times", "report:times", "report for URR %d: start/end %d/%d, measured %d/%d", u.URRID, u.Start, u.End, k.Start.Unix()+ntpOffset, k.End.Unix()+ntpOffset)
		}
	}
	volum := mu.Method&2 != 0
	durat := mu.Method&1 != 0
	if volum != u.HasVol {
		s.violate("C10", "report.method-volume", "report:volume-presence", "URR %d has VOLUM=%v but Volume Measurement present=%v", u.URRID, volum, u.HasVol)
	}
	if durat != u.HasDur {
		s.violate("C10", "report.method-duration", "report:duration-presence", "URR %d has DURAT=%v but Duration Measurement present=%v", u.URRID, durat, u.HasDur)
	}
	if volum {
		want := uint8(7)
		if mu.MNOP {
			want = 0x3f
		}
		if u.VolFlag != want {
			s.violate("C10", "report.volume-flags", "report:volume-flags", "URR %d (MNOP=%v): Volume Measurement flags %#x, expected %#x", u.URRID, mu.MNOP, u.VolFlag, want)
		}
		for i := 0; i < 6; i++ {
			if want&(1<<uint(i)) != 0 && u.Vol[i] != k.Vol[i] {
				s.violate("C10", "report.counters", fmt.Sprintf("report:counter:%d", i), "URR %d: counter %d is %d, measured %d", u.URRID, i, u.Vol[i], k.Vol[i])
			}
		}
	}
}

// ---- C12 -------------------------------------------------------------------------------

func (s *Sim) checkC12(ctx *StepCtx, ureps []*URep) {
	if !s.oracleOn("C12") || ctx.Kind != "deliver" || ctx.Dg.Intent == nil || ctx.Dup || ctx.Target == nil {
		return
	}
	in := ctx.Dg.Intent
	if in.T != "mod" && in.T != "del" {
		return
	}
	if s.stepFaulted(ctx) || ctx.Foreign {
		return
	}
	termr := map[uint32]int{}
	immer := map[uint32]int{}
	for _, u := range ureps {
		if u.Carrier == "srr" {
			continue
		}
		if u.Trigger&(1<<usarBit["TERMR"]) != 0 {
			termr[u.URRID]++
		}
		if u.Trigger&(1<<usarBit["IMMER"]) != 0 {
			immer[u.URRID]++
		}
	}
	x := ctx.Target
	ids := map[uint32]bool{}
	for u := range x.URR {
		ids[u] = true
	}
	for u := range termr {
		ids[u] = true
	}
	for u := range ctx.expTermr {
		ids[u] = true
	}
	var sorted []uint32
	for u := range ids {
		sorted = append(sorted, u)
	}
	sort.Slice(sorted, func(i, j int) bool { return sorted[i] < sorted[j] })
	for _, u := range sorted {
		label, want := ctx.expTermr[u]
		got := termr[u]
		if mu := x.URR[u]; (mu != nil && mu.Taint) || ctx.skipURR[u] {
			continue
		}
		switch {
		case want && got == 0:
			s.violate("C12", "termr.once", "termr:missing:via="+label,
				"%s for session %#x ends or detaches URR %d (%s) but the response carries no termination report for it", in.T, x.UP, u, label)
		case want && got > 1:
			s.violate("C12", "termr.once", "termr:duplicate:via="+label, "%d termination reports for URR %d in one response", got, u)
		case !want && got > 0:
			via := ctx.refVia[u]
			if via == "" {
				via = "none"
			}
			s.violate("C12", "termr.only-when-ended", "termr:spurious:via="+via,
				"termination report for URR %d of session %#x although it is still referenced / not removed (a reference arose via %s)", u, x.UP, via)
		}
		if want && got == 1 {
			if label == "remove_urr" || label == "session_deletion" {
				s.probe("c12.termr.remove", 1)
			} else {
				s.probe("c12.termr.lastpdr", 1)
			}
		}
	}
	if in.T == "mod" {
		q := map[uint32]int{}
		removed := map[uint32]bool{}
		for _, r := range in.Remove {
			if r.Kind == "urr" {
				removed[r.ID] = true
			}
		}
		for _, u := range in.Query {
			if _, ok := x.URR[u]; ok && !removed[u] {
				q[u]++
			}
		}
		for u, n := range q {
			if immer[u] != n {
				s.violate("C12", "immer.query", "immer:count", "%d Query URR IE(s) for URR %d but %d immediate report(s)", n, u, immer[u])
			}
		}
		for u, n := range immer {
			if q[u] == 0 && n > 0 {
				s.violate("C12", "immer.only-on-query", "immer:spurious", "immediate report for URR %d without a Query URR IE", u)
			}
		}
	}
}

func (s *Sim) finalReports() {}
