//go:build verif

package verifsim

// Actions: the explicit, replayable inputs of a run. An action list plus the run
// configuration (which contains the seed) determines the execution completely.

import (
	"encoding/hex"
	"encoding/json"
	"fmt"
	"net"
	"sync"
	"time"

	"github.com/free5gc/go-upf/internal/report"
)

type MsgIntent struct {
	T       string       `json:"t"` // hb assoc est mod del other
	Seq     uint32       `json:"seq"`
	MsgType uint8        `json:"mtype,omitempty"` // for "other"
	Slot    int          `json:"slot"`
	NodeID  string       `json:"node,omitempty"` // "" own id, "-" omit the IE
	NoFSEID bool         `json:"nofseid,omitempty"`
	CPSEID  uint64       `json:"cpseid,omitempty"`
	SEID    *uint64      `json:"seid,omitempty"` // explicit header SEID (probe)
	Create  []RuleIntent `json:"create,omitempty"`
	Update  []RuleIntent `json:"update,omitempty"`
	Remove  []RuleRef    `json:"remove,omitempty"`
	Query   []uint32     `json:"query,omitempty"`
}

type KRepItem struct {
	SMF   int    `json:"smf"`
	Slot  int    `json:"slot"`
	SEID  uint64 `json:"seid,omitempty"` // used when Slot < 0
	URR   uint32 `json:"urr"`
	Cause uint32 `json:"cause"`
}

type KBufIntent struct {
	SMF    int    `json:"smf"`
	Slot   int    `json:"slot"`
	SEID   uint64 `json:"seid,omitempty"` // used when Slot < 0
	PDR    uint16 `json:"pdr"`
	Action uint16 `json:"action"`
	Len    int    `json:"len"`
	Count  int    `json:"count"`
}

type AnsIntent struct {
	Idx  int    `json:"idx"`  // index into the list of unanswered UPF requests
	Mode string `json:"mode"` // ok seid0 wrongpeer wrongseq
}

type Action struct {
	Op    string      `json:"op"`
	SMF   int         `json:"smf,omitempty"`
	Msg   *MsgIntent  `json:"msg,omitempty"`
	Net   string      `json:"net,omitempty"` // "" deliver now | hold | drop
	Ref   int         `json:"ref,omitempty"`
	Ms    int64       `json:"ms,omitempty"`
	Fault *FaultSpec  `json:"fault,omitempty"`
	N     int         `json:"n,omitempty"`
	KBuf  *KBufIntent `json:"kbuf,omitempty"`
	KRep  []KRepItem  `json:"krep,omitempty"`
	Ans   *AnsIntent  `json:"ans,omitempty"`
	Raw   string      `json:"raw,omitempty"`
	From  string      `json:"from,omitempty"`
}

type Slot struct {
	SMF   int
	Idx   int
	CP    uint64
	UP    uint64
	Known bool // UP learnt from an Establishment Response
}

type SMF struct {
	Idx    int
	NodeID string
	Src    *net.UDPAddr // where its requests come from
	Rep    *net.UDPAddr // NodeID:8805, where the UPF sends reports
	Seq    uint32
	Slots  []*Slot

	// free-running mode only
	inbox chan []byte
	mu    sync.Mutex
}

// Dgram is a datagram a simulated peer produced.
type Dgram struct {
	Act       int
	B         []byte
	Src       *net.UDPAddr
	Intent    *MsgIntent
	SMF       int
	Delivered int
	Held      bool
	Ans       *AnsIntent
	Up        *UpReq
}

// UpReq is a request the UPF sent (Session Report Request) as seen on the wire.
type UpReq struct {
	N         int
	Dst       string
	Seq       uint32
	CPSEID    uint64
	B         []byte
	Sends     []time.Duration
	Answered  bool // a matching response has been delivered to the UPF
	AnsTried  bool
	ErrSends  int  // copies whose socket write was made to fail
	MidAns    bool // an answer was injected mid-turn; processed by the end of this step
	abCounted bool
	SMF       int
	Msg       *PMsg
}

func (s *Sim) setupSMFs() {
	for i := 0; i < s.cfg.NSMF; i++ {
		ip := fmt.Sprintf("10.1.0.%d", i+1)
		m := &SMF{Idx: i, NodeID: ip, Seq: 1}
		if s.cfg.FQDNMask&(1<<i) != 0 {
			// this peer names itself by FQDN: the UPF must resolve the name (through the
			// simulator's resolver, rule R8) to find where its reports go
			m.NodeID = fmt.Sprintf("smf%d.cp.sim", i+1)
			s.names[m.NodeID] = net.ParseIP(ip).To4()
		}
		m.Rep = udpAddr(ip + ":8805")
		m.Src = m.Rep
		if i == 3 { // a peer behind a port translator: its requests do not come from :8805
			m.Src = udpAddr(ip + ":31000")
		}
		if i == 1 && s.cfg.CoLoc {
			// two peers behind one address translator: this one's requests come from the
			// first peer's IP address, from another port (its Node ID and the address its
			// reports go to stay its own)
			m.Src = udpAddr("10.1.0.1:40001")
		}
		for j := 0; j < s.cfg.NSlots; j++ {
			m.Slots = append(m.Slots, &Slot{SMF: i, Idx: j})
		}
		s.smfs = append(s.smfs, m)
	}
}

func (s *Sim) smf(i int) *SMF {
	if len(s.smfs) == 0 {
		s.harnessFail("no SMF configured")
	}
	if i < 0 {
		i = -i
	}
	return s.smfs[i%len(s.smfs)]
}

func (m *SMF) slot(j int) *Slot {
	if j < 0 {
		j = -j
	}
	return m.Slots[j%len(m.Slots)]
}

// build turns an intent into wire bytes.
func (s *Sim) build(m *SMF, in *MsgIntent) []byte {
	pm := &PMsg{Seq: in.Seq & 0xffffff}
	node := m.NodeID
	if in.NodeID != "" {
		node = in.NodeID
	}
	switch in.T {
	case "hb":
		pm.Type = mtHeartbeatReq
		pm.IEs = append(pm.IEs, TLV{T: ieRecoveryTS, V: u32b(3900000000)})
	case "assoc":
		pm.Type = mtAssocSetupReq
		if node != "-" {
			pm.IEs = append(pm.IEs, nodeIDv4(node))
		}
		pm.IEs = append(pm.IEs, TLV{T: ieRecoveryTS, V: u32b(3900000000)})
	case "est":
		pm.Type = mtSessEstReq
		pm.HasSEID = true
		pm.SEID = 0
		if node != "-" {
			pm.IEs = append(pm.IEs, nodeIDv4(node))
		}
		if !in.NoFSEID {
			pm.IEs = append(pm.IEs, fseidV4(in.CPSEID, m.Rep.IP.String()))
		}
		for i := range in.Create {
			pm.IEs = append(pm.IEs, in.Create[i].createTLV())
		}
	case "mod", "del":
		pm.Type = mtSessModReq
		if in.T == "del" {
			pm.Type = mtSessDelReq
		}
		pm.HasSEID = true
		if in.SEID != nil {
			pm.SEID = *in.SEID
		} else {
			sl := m.slot(in.Slot)
			if sl.Known {
				pm.SEID = sl.UP
			} else {
				pm.SEID = 0x7fff0000 + uint64(in.Slot) // never issued
			}
		}
		if in.T == "mod" {
			if in.NodeID != "" && in.NodeID != "-" {
				pm.IEs = append(pm.IEs, nodeIDv4(in.NodeID))
			}
			for i := range in.Create {
				pm.IEs = append(pm.IEs, in.Create[i].createTLV())
			}
			for _, r := range in.Remove {
				ri := RuleIntent{Kind: r.Kind, ID: r.ID}
				pm.IEs = append(pm.IEs, ri.removeTLV())
			}
			for i := range in.Update {
				pm.IEs = append(pm.IEs, in.Update[i].updateTLV())
			}
			for _, q := range in.Query {
				pm.IEs = append(pm.IEs, grp(ieQueryURR, TLV{T: ieURRID, V: u32b(q)}))
			}
		}
	case "other":
		pm.Type = in.MsgType
		if in.MsgType >= 50 {
			pm.HasSEID = true
			if in.SEID != nil {
				pm.SEID = *in.SEID
			}
		}
		if node != "-" {
			pm.IEs = append(pm.IEs, nodeIDv4(node))
		}
	default:
		s.harnessFail("unknown message intent %q", in.T)
	}
	return pm.Marshal()
}

// ---- executing actions -----------------------------------------------------------------

func (s *Sim) step(a Action) {
	idx := s.actNo
	s.actNo++
	s.res.Actions = append(s.res.Actions, a)
	if s.verbose {
		// streamed before execution so that the list survives a process crash
		ab, _ := json.Marshal(a)
		fmt.Printf("ACT %s\n", ab)
	}
	if a.Op != "adv" && a.Op != "fault" {
		s.clearTimerEdges()
	}
	switch a.Op {
	case "send":
		if a.Msg == nil {
			return
		}
		m := s.smf(a.SMF)
		dg := &Dgram{Act: idx, B: s.build(m, a.Msg), Src: m.Src, Intent: a.Msg, SMF: m.Idx}
		if a.From != "" {
			dg.Src = udpAddr(a.From)
		}
		s.dgs[idx] = dg
		switch a.Net {
		case "hold":
			dg.Held = true
			s.fired("n4.delay", 1)
		case "drop":
			s.fired("n4.drop", 1)
		default:
			s.deliver(dg)
		}
	case "deliver":
		if dg := s.dgs[a.Ref]; dg != nil && dg.Held {
			dg.Held = false
			s.fired("n4.reorder", 1)
			s.deliver(dg)
		}
	case "dup":
		if dg := s.dgs[a.Ref]; dg != nil && dg.Delivered > 0 && dg.Delivered < 6 {
			s.fired("n4.dup", 1)
			s.deliver(dg)
		}
	case "raw":
		b, err := hex.DecodeString(a.Raw)
		if err != nil {
			return
		}
		src := s.smf(a.SMF).Src
		if a.From != "" {
			src = udpAddr(a.From)
		}
		dg := &Dgram{Act: idx, B: b, Src: src, SMF: -1}
		s.dgs[idx] = dg
		s.deliver(dg)
		if s.oracleOn("C07") {
			s.heartbeatProbe()
		}
	case "adv":
		s.mstep("adv", nil, func() {
			if a.Ms > 3000 {
				s.fired("clock.jump", 1)
			}
			s.advance(time.Duration(a.Ms) * time.Millisecond)
		})
	case "fault":
		if a.Fault != nil {
			f := *a.Fault
			s.kern.faults = append(s.kern.faults, &f)
		}
	case "n4err":
		s.n4.mu.Lock()
		s.n4.failNext += a.N
		s.n4.mu.Unlock()
	case "gtpuerr":
		s.gtpu.mu.Lock()
		s.gtpu.failNext += a.N
		s.gtpu.mu.Unlock()
	case "krep":
		s.mstep("krep", nil, func() { s.doKRep(a.KRep) })
	case "armburst":
		s.armed = a.KRep
		if a.KBuf != nil {
			s.armedK = a.KBuf
		}
	case "armstop":
		s.armedStop = a.N
		if s.armedStop < 1 {
			s.armedStop = 1
		}
	case "armans":
		// an SMF's answer that reaches the socket while the event loop is in the middle
		// of a turn (waiting for the N-th data-plane reply from now)
		if a.Ans != nil {
			c := a
			if c.N < 1 {
				c.N = 1
			}
			s.armedAns = &c
		}
	case "kbuf":
		if a.KBuf != nil {
			s.mstep("kbuf", nil, func() { s.doKBuf(a.KBuf) })
		}
	case "detach":
		if a.KBuf != nil {
			s.detach(a.KBuf, a.N)
		}
	case "fwdrep":
		s.mstep("fwdrep", nil, func() {
			s.forwardReport(a.N)
			s.settle()
		})
	case "ans":
		if a.Ans != nil {
			s.answer(idx, a.Ans)
		}
	case "holdps":
		if s.heldReq == nil {
			s.holdPS = true
		}
	case "releaseps":
		s.releasePS()
	case "stop1":
		s.releasePS()
		s.mstep("stop1", nil, func() { s.stop1() })
	case "stop2":
		s.releasePS()
		s.mstep("stop2", nil, func() { s.stop1(); s.stop2() })
	default:
		s.harnessFail("unknown action %q", a.Op)
	}
}

// timerSkewMax: go-upf's one-shot timers run up to this much late under the simulator
// (sim.go, SetTimerSkew), each by a different amount.
const timerSkewMax = (1 << 15) * 4 * time.Nanosecond

// clearTimerEdges: the model knows when a transaction timer was started and for how long,
// not the few ns the simulator added to it. An action that would fall between a timer's
// nominal expiry and its latest possible one is therefore held back until every such
// timer has certainly expired (the simulator decides when things happen).
func (s *Sim) clearTimerEdges() {
	if s.free || s.srv == nil || s.tearing {
		return
	}
	W := time.Duration(s.cfg.RetransMs) * time.Millisecond
	for tries := 0; tries < 3; tries++ {
		now := s.since()
		var wait time.Duration
		edge := func(e time.Duration) {
			if now >= e && now <= e+timerSkewMax {
				if w := e + timerSkewMax + 8 - now; w > wait {
					wait = w
				}
			}
		}
		for _, u := range s.model.ups {
			if !u.Answered && len(u.Sends) > 0 {
				edge(u.Sends[len(u.Sends)-1] + W)
			}
		}
		for _, rx := range s.model.rx {
			edge(rx.T0 + s.model.window())
		}
		if wait == 0 {
			return
		}
		wait = (wait + 3) / 4 * 4
		s.probe("timer.edge.cleared", 1)
		s.mstep("adv", nil, func() { s.advance(wait) })
	}
}

func (s *Sim) resolveSEID(smf, slot int, raw uint64) (uint64, bool) {
	if slot < 0 {
		return raw, true
	}
	sl := s.smf(smf).slot(slot)
	if !sl.Known {
		return 0x7ffe0000 + uint64(slot), true
	}
	return sl.UP, true
}

func (s *Sim) doKRepNoSettle(items []KRepItem) {
	var keys []RuleKey
	var causes []uint32
	for _, it := range items {
		seid, _ := s.resolveSEID(it.SMF, it.Slot, it.SEID)
		keys = append(keys, RuleKey{Kind: "urr", SEID: seid, ID: uint64(it.URR)})
		causes = append(causes, it.Cause)
	}
	if len(keys) > 0 {
		s.kern.emitReports(keys, causes)
		s.logEvent("krep(burst) %d reports", len(keys))
	}
}

func (s *Sim) doKRep(items []KRepItem) {
	var keys []RuleKey
	var causes []uint32
	for _, it := range items {
		seid, _ := s.resolveSEID(it.SMF, it.Slot, it.SEID)
		keys = append(keys, RuleKey{Kind: "urr", SEID: seid, ID: uint64(it.URR)})
		causes = append(causes, it.Cause)
	}
	if len(keys) == 0 {
		return
	}
	reps := s.kern.emitReports(keys, causes)
	s.logEvent("krep %d reports", len(reps))
	s.settle()
}

func (s *Sim) doKBuf(k *KBufIntent) {
	seid, _ := s.resolveSEID(k.SMF, k.Slot, k.SEID)
	n := k.Count
	if n < 1 {
		n = 1
	}
	if n > 1 {
		s.fired("dp.burst", 1)
	}
	for i := 0; i < n; i++ {
		tag := s.model.nextPktTag()
		pkt := makePayload(tag, k.Len)
		s.model.noteBufferEmitted(seid, k.PDR, k.Action, tag, pkt)
		s.kern.emitBuffer(seid, k.PDR, k.Action, pkt)
		s.logEvent("kbuf seid=%#x pdr=%d act=%#x tag=%d len=%d", seid, k.PDR, k.Action, tag, len(pkt))
		s.settle()
	}
}

// detach starts a data-plane producer that owes the simulator nothing after this point: it
// is told now which notification to hand up and when (simulated time), and then runs on
// its own goroutine. The lock-step scheduler orders every goroutine it waits for before
// whatever it does next (synctest.Wait is an acquire for the race detector), which would
// hide a producer touching event-loop state; a detached producer acquires nothing after
// its start, so its accesses stay unordered with the event loop's, as they are in
// production where the netlink goroutines share only channels with the loop.
func (s *Sim) detach(k *KBufIntent, delayNs int) {
	seid, _ := s.resolveSEID(k.SMF, k.Slot, k.SEID)
	n := k.Count
	if n < 1 {
		n = 1
	}
	var srs []report.SessReport
	for i := 0; i < n; i++ {
		pkt := makePayload(s.model.nextPktTag(), k.Len)
		srs = append(srs, report.SessReport{SEID: seid, Reports: []report.Report{
			report.DLDReport{PDRID: k.PDR, Action: k.Action, BufPkt: pkt}}})
	}
	s.probe("detached.producer", 1)
	s.logEvent("detach seid=%#x pdr=%d act=%#x n=%d after=%dns", seid, k.PDR, k.Action, n, delayNs)
	srv := s.srv
	if srv == nil {
		return
	}
	// Each notification gets an odd nanosecond of its own (see bump), also clear of the
	// retransmission instants of the requests earlier notifications may have caused: two
	// timers of one instant would fire in an order the simulator does not decide.
	now := int64(s.since())
	at := now + int64(delayNs)
	if at%2 == 0 {
		at++
	}
	var waits []time.Duration
	prev := now
	for range srs {
		for s.detBusy[at] {
			at += 2
		}
		for k := int64(0); k <= int64(s.cfg.MaxRetrans)+1; k++ {
			s.detBusy[at+k*int64(s.cfg.RetransMs)*int64(time.Millisecond)] = true
		}
		waits = append(waits, time.Duration(at-prev))
		prev = at
		at += 2
	}
	s.detWG.Add(1)
	go func() {
		defer s.detWG.Done()
		for i, sr := range srs {
			time.Sleep(waits[i])
			srv.NotifySessReport(sr)
		}
	}()
}

// makePayload builds a recognisable packet: 8-byte tag, then a pattern.
func makePayload(tag uint64, n int) []byte {
	if n < 8 {
		n = 8
	}
	b := make([]byte, n)
	be.PutUint64(b, tag)
	for i := 8; i < n; i++ {
		b[i] = byte(tag*31 + uint64(i))
	}
	return b
}

// answer lets an SMF react to a request the UPF sent.
func (s *Sim) answer(actIdx int, a *AnsIntent) {
	var open []*UpReq
	for _, u := range s.ansQ {
		if !u.AnsTried {
			open = append(open, u)
		}
	}
	if len(open) == 0 {
		return
	}
	if a.Idx < 0 {
		a.Idx = -a.Idx
	}
	u := open[a.Idx%len(open)]
	s.sendAnswer(actIdx, u, a.Mode)
}

func (s *Sim) injectAnswerMidTurn(a *Action) {
	var open []*UpReq
	for _, u := range s.ansQ {
		if !u.AnsTried {
			open = append(open, u)
		}
	}
	if len(open) == 0 {
		return
	}
	idx := a.Ans.Idx
	if idx < 0 {
		idx = -idx
	}
	u := open[idx%len(open)]
	u.AnsTried = true
	u.MidAns = true
	pm := &PMsg{Type: mtSessReportRsp, HasSEID: true, Seq: u.Seq, IEs: []TLV{tlv(ieCause, causeAccepted)}}
	pm.SEID = s.model.upSEIDFor(u.CPSEID, u.Dst)
	if pm.SEID == 0 {
		pm.SEID = 0x7ffd0000
	}
	s.fired("n4.midturn", 1)
	s.logEvent("n4 in (mid-turn answer) seq=%d", u.Seq)
	s.n4.inject(pm.Marshal(), udpAddr(u.Dst))
}

func (s *Sim) sendAnswer(actIdx int, u *UpReq, mode string) {
	u.AnsTried = true
	m := s.smf(u.SMF)
	pm := &PMsg{Type: mtSessReportRsp, HasSEID: true, Seq: u.Seq}
	src := udpAddr(u.Dst)
	// header SEID of a response = the UP SEID of the session (the receiver's SEID)
	pm.SEID = s.model.upSEIDFor(u.CPSEID, u.Dst)
	if pm.SEID == 0 {
		pm.SEID = 0x7ffd0000
	}
	switch mode {
	case "seid0":
		pm.SEID = 0
		s.fired("smf.seid0", 1)
	case "wrongpeer":
		src = udpAddr(fmt.Sprintf("10.9.9.%d:8805", 1+m.Idx))
		s.fired("smf.wrongpeer", 1)
	case "wrongseq":
		pm.Seq = (u.Seq + 7) & 0xffffff
		s.fired("smf.wrongseq", 1)
	}
	pm.IEs = append(pm.IEs, tlv(ieCause, causeAccepted))
	dg := &Dgram{Act: actIdx, B: pm.Marshal(), Src: src, SMF: m.Idx, Ans: &AnsIntent{Mode: mode}, Up: u}
	if _, taken := s.dgs[actIdx]; !taken {
		s.dgs[actIdx] = dg
	}
	s.deliver(dg)
}
