//go:build verif

package verifsim

// Step oracles. Each demands no more than its property states (DESIGN.md §3).

import (
	"bytes"
	"fmt"
	"sort"
	"strings"
	"time"

	"github.com/free5gc/go-upf/internal/pfcp"
)

func (s *Sim) violateAny(props []string, inv, sig, f string, a ...any) {
	for _, p := range props {
		if s.oracleOn(p) {
			s.violate(p, inv, sig, f, a...)
		}
	}
}

func sessByID(st pfcp.VerifState) map[uint64]pfcp.VerifSess {
	out := map[uint64]pfcp.VerifSess{}
	for _, x := range st.Sess {
		out[x.LocalID] = x
	}
	return out
}

func causeOf(pm *PMsg) int {
	if c, ok := pm.find(ieCause); ok && len(c.V) >= 1 {
		return int(c.V[0])
	}
	return -1
}

func (s *Sim) checkStep(ctx *StepCtx) {
	if ctx.Kind == "deliver" {
		s.checkDeliver(ctx)
		s.checkRaw(ctx)
	}
	s.checkReports(ctx)
	if ctx.Kind == "deliver" && ctx.Dg.Intent != nil && !ctx.Dup && ctx.Target != nil && ctx.Target.Live && ctx.Dg.Intent.T != "del" {
		s.model.finishRules(ctx.Target, ctx.Dg.Intent, ctx)
	}
	if ctx.Kind == "deliver" && ctx.Dg.Intent != nil && !ctx.Dup {
		s.checkPerioRegistration(ctx)
	}
	s.checkBuffers(ctx)
	s.checkPerio(ctx)
	s.checkGlobal(ctx)
}

// expectedResponse: message type of the response the request must get (0 = none).
func (s *Sim) expectedResponse(ctx *StepCtx) uint8 {
	in := ctx.Dg.Intent
	m := s.model
	node := s.smf(ctx.Dg.SMF).NodeID
	if in.NodeID != "" {
		node = in.NodeID
	}
	switch in.T {
	case "hb":
		return mtHeartbeatRsp
	case "assoc":
		if node == "-" {
			return 0
		}
		return mtAssocSetupRsp
	case "est":
		if ctx.Target == nil {
			return 0
		}
		return mtSessEstRsp
	case "mod":
		return mtSessModRsp
	case "del":
		return mtSessDelRsp
	}
	_ = m
	return 0
}

func (s *Sim) noTrace(ctx *StepCtx, props []string, why string) {
	for _, r := range ctx.Reqs {
		if r.Conn == "main" {
			s.violateAny(props, "no-side-effect", "effect:dataplane-call",
				"%s, yet the data plane received %s %s", why, r.Op, r.Key)
		}
	}
	post := s.projections()
	if !sameProj(ctx.preProj, post) {
		s.violateAny(props, "no-side-effect", "effect:dataplane-state", "%s, yet data-plane state changed", why)
	}
	if liveSet(ctx.pre) != liveSet(ctx.post) {
		s.violateAny(props, "no-side-effect", "effect:sessions",
			"%s, yet the session table changed: %s -> %s", why, liveSet(ctx.pre), liveSet(ctx.post))
	}
}

func sameProj(a, b map[uint64]string) bool {
	if len(a) != len(b) {
		return false
	}
	for k, v := range a {
		if b[k] != v {
			return false
		}
	}
	return true
}

func liveSet(st pfcp.VerifState) string {
	var parts []string
	for _, x := range st.Sess {
		parts = append(parts, fmt.Sprintf("%#x/cp%#x/%s", x.LocalID, x.RemoteID, x.NodeID))
	}
	sort.Strings(parts)
	return strings.Join(parts, ",")
}

func (s *Sim) checkDeliver(ctx *StepCtx) {
	dg := ctx.Dg
	m := s.model
	// responses never go anywhere but to the sender of the request being processed
	for _, o := range ctx.N4 {
		if len(o.B) >= 2 && !isRequestType(o.B[1]) && o.Dst != dg.Src.String() {
			s.violateAny([]string{"C08", "C06"}, "rsp.destination", "rsp:wrong-destination",
				"a response (type %d) was sent to %s while processing a datagram from %s", o.B[1], o.Dst, dg.Src)
		}
	}
	if dg.Intent == nil {
		if dg.Ans != nil {
			s.checkAnswer(ctx)
		}
		return
	}
	in := dg.Intent
	key := fmt.Sprintf("%s-%d", dg.Src, in.Seq&0xffffff)

	if ctx.Dup {
		rx := m.rx[key]
		why := fmt.Sprintf("%s seq=%d from %s is a retransmission inside the retention window", in.T, in.Seq, dg.Src)
		s.noTrace(ctx, []string{"C06"}, why)
		if rx.HasResp {
			if len(ctx.RespPkt) != 1 || !bytes.Equal(ctx.RespPkt[0].B, rx.Resp) {
				got := "nothing"
				if len(ctx.RespPkt) > 0 {
					got = fmt.Sprintf("%d datagram(s), first % x", len(ctx.RespPkt), ctx.RespPkt[0].B)
				}
				s.violate("C06", "dup.identical-answer", "dup:answer-differs",
					"%s: expected a byte-identical copy of the first response (% x), got %s", why, rx.Resp, got)
			}
		} else if len(ctx.RespPkt) != 0 {
			s.violate("C06", "dup.ignored", "dup:answered-without-original",
				"%s and the original got no response, yet %d datagram(s) were sent back", why, len(ctx.RespPkt))
		}
		return
	}

	want := s.expectedResponse(ctx)
	props := []string{"C08", "C06", "C04"}
	if want == 0 {
		if len(ctx.Resp) != 0 {
			s.violateAny(props, "rsp.none-expected", "rsp:unexpected", "%s seq=%d must not be answered, got type %d", in.T, in.Seq, ctx.Resp[0].Type)
		}
		s.noTrace(ctx, []string{"C08", "C01"}, fmt.Sprintf("%s seq=%d from %s is not answered", in.T, in.Seq, dg.Src))
		return
	}
	if len(ctx.Resp) != 1 {
		s.violateAny(props, "rsp.exactly-one", fmt.Sprintf("rsp:count:%s", in.T),
			"%s seq=%d from %s: expected one response of type %d, got %d", in.T, in.Seq, dg.Src, want, len(ctx.Resp))
		if len(ctx.Resp) == 0 {
			return
		}
	}
	r := ctx.Resp[0]
	if r.Type != want {
		s.violateAny(props, "rsp.type", "rsp:type", "%s seq=%d answered with type %d, want %d", in.T, in.Seq, r.Type, want)
	}
	if r.Seq != in.Seq&0xffffff {
		s.violateAny(props, "rsp.seq", "rsp:seq", "%s seq=%d answered with sequence number %d", in.T, in.Seq, r.Seq)
	}
	switch in.T {
	case "hb", "assoc":
		ts, ok := r.find(ieRecoveryTS)
		if !ok {
			s.violate("C08", "rsp.recovery", "rsp:no-recovery-ts", "%s response without Recovery Time Stamp", in.T)
		}
		if m.recov == nil {
			m.recov = ts.V
		} else if !bytes.Equal(m.recov, ts.V) {
			s.violate("C08", "rsp.recovery-constant", "rsp:recovery-changed",
				"Recovery Time Stamp changed from % x to % x at %v", m.recov, ts.V, s.since())
		}
		if in.T == "assoc" {
			if causeOf(r) != causeAccepted {
				s.violate("C08", "rsp.cause", "rsp:assoc-cause", "Association Setup Response cause %d", causeOf(r))
			}
			s.checkNodeID(r)
		}
	case "est":
		x := ctx.Target
		if causeOf(r) != causeAccepted {
			if !(s.stepFaulted(ctx) && s.cfg.faultOn("dp")) {
				s.violate("C08", "rsp.cause", "rsp:est-cause", "Establishment Response cause %d", causeOf(r))
			}
			// the data plane refused part of it: answering with an error is legitimate,
			// provided the request leaves no trace
			s.probe("est.rejected-under-fault", 1)
			pre := sessByID(ctx.pre)
			for _, y := range ctx.post.Sess {
				if _, was := pre[y.LocalID]; !was {
					s.violate("C08", "error.no-trace", "rsp:error-left-session",
						"Establishment answered with cause %d, yet the UPF now holds session UP %#x (CP %#x)", causeOf(r), y.LocalID, y.RemoteID)
				}
			}
			for k := range s.kern.rules {
				if _, was := pre[k.SEID]; !was && m.sess[k.SEID] == nil {
					s.violate("C08", "error.no-trace", "rsp:error-left-rules",
						"Establishment answered with cause %d, yet the data plane holds %v", causeOf(r), k)
				}
			}
			break
		}
		s.checkNodeID(r)
		if !r.HasSEID || r.SEID != in.CPSEID {
			s.violate("C08", "rsp.seid", "rsp:est-seid", "Establishment Response header SEID %#x, peer chose %#x", r.SEID, in.CPSEID)
		}
		if x.UP == 0 {
			s.violateAny([]string{"C04", "C08"}, "seid.nonzero", "seid:zero", "Establishment Response carries UP F-SEID 0 or none")
		}
		if ctx.preProj[x.UP] != "" {
			s.violateAny([]string{"C04", "C01"}, "seid.reuse-clean", "seid:reuse-dirty",
				"UP SEID %#x issued while the data plane still holds rules under it:\n%s", x.UP, ctx.preProj[x.UP])
		}
	case "mod", "del":
		x := ctx.Target
		if x == nil {
			why := fmt.Sprintf("%s addressed to SEID %#x which no live session holds", in.T, dg.headerSEID())
			if causeOf(r) != causeSessCtxNotFund || r.SEID != 0 {
				s.violateAny([]string{"C04", "C08"}, "seid.notfound", "seid:notfound-answer",
					"%s: expected cause 65 with SEID 0, got cause %d SEID %#x", why, causeOf(r), r.SEID)
			}
			s.noTrace(ctx, []string{"C04", "C08"}, why)
			return
		}
		if causeOf(r) != causeAccepted {
			s.violateAny([]string{"C08", "C04"}, "rsp.cause", "rsp:cause", "%s to live SEID %#x answered with cause %d", in.T, x.UP, causeOf(r))
		}
		if r.SEID != x.CP {
			s.violateAny([]string{"C08", "C04"}, "rsp.seid", "rsp:seid",
				"%s to SEID %#x answered with header SEID %#x, the peer chose %#x for that session", in.T, x.UP, r.SEID, x.CP)
		}
	}
	s.checkIsolation(ctx)
	s.checkRuleScope(ctx)
	s.checkTranslation(ctx)
}

func (s *Sim) checkNodeID(r *PMsg) {
	n, ok := r.find(ieNodeID)
	want := nodeIDv4(upfIP)
	if !ok || !bytes.Equal(n.V, want.V) {
		s.violate("C08", "rsp.nodeid", "rsp:nodeid", "response carries node id % x, want % x", n.V, want.V)
	}
}

// checkIsolation: C05 — only the addressed session(s) may change.
func (s *Sim) checkIsolation(ctx *StepCtx) {
	allowed := map[uint64]bool{}
	if ctx.Target != nil {
		allowed[ctx.Target.UP] = true
	}
	for _, x := range ctx.Ended {
		allowed[x.UP] = true
	}
	freshOK := ctx.Target != nil && ctx.Target.UP == 0 && ctx.Dg != nil && ctx.Dg.Intent != nil && ctx.Dg.Intent.T == "est"
	preLive := sessByID(ctx.pre)
	for _, r := range ctx.Reqs {
		if r.Conn != "main" {
			continue
		}
		if _, was := preLive[r.Key.SEID]; freshOK && !was && s.model.sess[r.Key.SEID] == nil && r.Op != "multi" {
			// an Establishment that was answered with an error: the SEID it worked under
			// is not on the wire; any SEID that was and is nobody's is its own
			continue
		}
		keys := []RuleKey{r.Key}
		if r.Op == "multi" {
			keys = r.Multi
		}
		for _, k := range keys {
			if !allowed[k.SEID] {
				s.violateAny([]string{"C05", "C08"}, "dp.tagged-with-own-seid", "isolation:foreign-seid",
					"processing %s for SEID(s) %v issued data-plane %s %s", ctx.Dg.Intent.T, keysOf(allowed), r.Op, k)
			}
		}
	}
	post := s.projections()
	pre := sessByID(ctx.pre)
	for _, y := range ctx.post.Sess {
		if allowed[y.LocalID] {
			continue
		}
		if ctx.preProj[y.LocalID] != post[y.LocalID] {
			s.violate("C05", "other.rules-untouched", "isolation:rules-changed",
				"processing %s for %v changed the rules of session %#x:\nbefore:\n%safter:\n%s",
				ctx.Dg.Intent.T, keysOf(allowed), y.LocalID, ctx.preProj[y.LocalID], post[y.LocalID])
		}
		if ctx.Foreign {
			continue
		}
		p, ok := pre[y.LocalID]
		if !ok {
			continue
		}
		if fmt.Sprint(p.QLens) != fmt.Sprint(y.QLens) {
			s.violate("C05", "other.buffers-untouched", "isolation:buffers-changed",
				"processing %s for %v changed buffered packets of session %#x: %v -> %v", ctx.Dg.Intent.T, keysOf(allowed), y.LocalID, p.QLens, y.QLens)
		}
		if fmt.Sprint(p.URRSeq) != fmt.Sprint(y.URRSeq) {
			s.violate("C05", "other.urseqn-untouched", "isolation:urseqn-changed",
				"processing %s for %v changed report sequence numbers of session %#x: %v -> %v", ctx.Dg.Intent.T, keysOf(allowed), y.LocalID, p.URRSeq, y.URRSeq)
		}
	}
}

func keysOf(m map[uint64]bool) []string {
	var l []string
	for k := range m {
		l = append(l, fmt.Sprintf("%#x", k))
	}
	sort.Strings(l)
	return l
}

// checkRuleScope: C01 (iii)/(iv') — update/remove/query reach the data plane only for
// rules the session has created; a Remove IE for an installed rule withdraws it.
func (s *Sim) checkRuleScope(ctx *StepCtx) {
	in := ctx.Dg.Intent
	scope := map[uint64]*MSess{}
	if ctx.Target != nil {
		scope[ctx.Target.UP] = ctx.Target
	}
	for _, x := range ctx.Ended {
		scope[x.UP] = x
	}
	for _, r := range ctx.Reqs {
		if r.Conn != "main" {
			continue
		}
		switch r.Op {
		case "add-update", "del", "report":
			// GETs are reads the driver makes on its own behalf; the property speaks of
			// Update, Remove and Query operations.
		default:
			continue
		}
		x := scope[r.Key.SEID]
		if x == nil {
			s.violate("C01", "dp.scope-session", "scope:no-session", "data-plane %s %s for a SEID no message in this step addresses", r.Op, r.Key)
			continue
		}
		ref := RuleRef{r.Key.Kind, uint32(r.Key.ID)}
		if !x.Ever[ref] {
			s.violate("C01", "dp.scope-created", fmt.Sprintf("scope:never-created:%s:%s", r.Op, r.Key.Kind),
				"data-plane %s %s, but session %#x never had a Create IE for %s %d (message: %s)", r.Op, r.Key, x.UP, ref.Kind, ref.ID, in.T)
		}
	}
	if in.T == "mod" && ctx.Target != nil {
		created := map[RuleRef]bool{}
		for i := range in.Create {
			created[in.Create[i].ref()] = true
		}
		for _, ref := range in.Remove {
			if created[ref] {
				continue
			}
			k := RuleKey{ref.Kind, ctx.Target.UP, uint64(ref.ID)}
			pre := strings.Contains(ctx.preProj[k.SEID], k.String()+"{")
			if _, still := s.kern.rules[k]; pre && still {
				s.violate("C01", "remove.withdraws", "remove:still-installed:"+ref.Kind,
					"Remove %s %d was accepted for session %#x but the rule is still in the data plane", ref.Kind, ref.ID, ctx.Target.UP)
			}
		}
	}
}

func (s *Sim) checkAnswer(ctx *StepCtx) {
	mode := ctx.Dg.Ans.Mode
	if ctx.Matched != nil && ctx.Target != nil {
		// removal of exactly that session is checked by checkGlobal; nothing else may change
		s.checkIsolation2(ctx, map[uint64]bool{ctx.Target.UP: true}, fmt.Sprintf("Session Report Response with SEID 0 for request seq=%d", ctx.Matched.Seq))
		return
	}
	why := fmt.Sprintf("Session Report Response (%s, seq=%d) that removes no session", mode, ctx.Dg.Up.Seq)
	s.noTrace(ctx, []string{"C09", "C05"}, why)
}

func (s *Sim) checkIsolation2(ctx *StepCtx, allowed map[uint64]bool, why string) {
	for _, r := range ctx.Reqs {
		if r.Conn == "main" && !allowed[r.Key.SEID] {
			s.violate("C05", "dp.tagged-with-own-seid", "isolation:foreign-seid", "%s issued data-plane %s %s", why, r.Op, r.Key)
		}
	}
	post := s.projections()
	for _, y := range ctx.post.Sess {
		if !allowed[y.LocalID] && ctx.preProj[y.LocalID] != post[y.LocalID] {
			s.violate("C05", "other.rules-untouched", "isolation:rules-changed", "%s changed the rules of session %#x", why, y.LocalID)
		}
	}
}

// checkGlobal: invariants that must hold at every quiescent point.
func (s *Sim) checkGlobal(ctx *StepCtx) {
	m := s.model
	if s.stopped1 || s.cfg.NoPeek {
		return
	}
	post := sessByID(ctx.post)
	// the UPF's live sessions are exactly the model's
	for _, up := range m.liveSEIDs() {
		x := m.sess[up]
		y, ok := post[up]
		if !ok {
			s.violateAny([]string{"C05", "C04", "C08"}, "sessions.kept", "sessions:lost",
				"session UP %#x (CP %#x, node %s) should be live but the UPF no longer has it (step kind %s)", up, x.CP, x.Node, ctx.Kind)
			continue
		}
		if y.RemoteID != x.CP {
			s.violateAny([]string{"C05", "C04", "C08"}, "sessions.identity", "sessions:cp-seid",
				"session UP %#x has CP SEID %#x in the UPF, the peer chose %#x", up, y.RemoteID, x.CP)
		}
	}
	for _, y := range ctx.post.Sess {
		if _, ok := m.sess[y.LocalID]; !ok {
			s.violateAny([]string{"C01", "C05", "C04", "C08"}, "sessions.ended", "sessions:outlives",
				"the UPF holds session UP %#x (CP %#x, node %s) which should not exist (step kind %s)", y.LocalID, y.RemoteID, y.NodeID, ctx.Kind)
		}
	}
	// C01 (i)(ii)(iv): every rule in the data plane belongs to a live session that requested it
	for _, key := range s.kern.allKeys() {
		x := m.sess[key.SEID]
		if x == nil {
			was := ""
			for _, e := range ctx.Ended {
				if e.UP == key.SEID {
					was = " (its session ended in this very step)"
				}
			}
			s.violateAny([]string{"C01", "C04"}, "rules.live-session", "rules:orphan:"+key.Kind,
				"data plane holds %s but no live session has SEID %#x%s", key, key.SEID, was)
			continue
		}
		ref := RuleRef{key.Kind, uint32(key.ID)}
		if !x.Req[ref] {
			s.violate("C01", "rules.requested", "rules:unrequested:"+key.Kind,
				"data plane holds %s but session %#x has no outstanding Create for it", key, key.SEID)
		}
	}
}

// checkProgress: C18 — once nothing more is injected, within ten simulated minutes the
// UPF has answered what it was sent and answers a fresh Heartbeat.
func (s *Sim) checkProgress(why string) {
	if !s.oracleOn("C18") || s.stopped1 {
		return
	}
	s.tearing = true // no more injected latency: faults have stopped
	s.armed = nil
	src := udpAddr("10.77.0.7:8805")
	answered := func(wait time.Duration) bool {
		s.hbSeq++
		pm := &PMsg{Type: mtHeartbeatReq, Seq: 0x700000 + s.hbSeq&0xfffff, IEs: []TLV{{T: ieRecoveryTS, V: u32b(3900000000)}}}
		from := s.n4.outLen()
		s.n4.inject(pm.Marshal(), src)
		s.mstepLite(func() { s.advance(wait) })
		for _, o := range s.n4.outSince(from) {
			if o.Dst == src.String() && len(o.B) >= 8 && o.B[1] == mtHeartbeatRsp {
				return true
			}
		}
		return false
	}
	// first let every outstanding transaction run out of retransmissions: what their
	// time-outs set off belongs to the history being judged
	s.mstepLite(func() { s.advance(time.Duration((s.cfg.MaxRetrans+2)*s.cfg.RetransMs) * time.Millisecond) })
	// a prompt answer settles it; otherwise give the UPF ten simulated minutes
	if answered(2*time.Second) || answered(10*time.Minute) {
		// ... and periodic reporting is still alive: every period that has a URR
		// registered (and installed in the data plane) is queried again within two periods
		reg := s.model.registered()
		var maxP time.Duration
		for p, set := range reg {
			for k := range set {
				if _, ok := s.kern.rules[k]; !ok {
					delete(set, k)
				}
			}
			if len(set) > 0 && p > maxP {
				maxP = p
			}
		}
		if maxP > 0 && !s.model.perioTaint {
			from := len(s.kern.reqLog)
			s.mstepLite(func() { s.advance(2*maxP + time.Second) })
			seen := map[time.Duration]bool{}
			for _, r := range s.kern.reqLog[from:] {
				if r.Conn != "ps" || r.Op != "multi" {
					continue
				}
				for p, set := range reg {
					for _, k := range r.Multi {
						if set[k] {
							seen[p] = true
						}
					}
				}
			}
			for p, set := range reg {
				if len(set) > 0 && !seen[p] {
					s.violate("C18", "progress.periodic", "stalled:periodic-reporting",
						"period %v has %d URR(s) registered and installed, but no periodic query was made for them in %v of idle time: periodic reports are no longer produced", p, len(set), 2*maxP+time.Second)
				}
			}
		}
		s.tearing = false
		s.probe("burst.done", 1)
		return
	}
	dump := bubbleDump()
	s.violate("C18", "progress", "wedge:"+wedgeSignature(dump),
		"%s: eleven simulated minutes after the last injected event the UPF does not answer a Heartbeat Request; goroutines:\n%s", why, dump)
}

// wedgeSignature: where the event loop stands, and which report producers are stuck
// handing a report to the server (named by the producer's own function).
func wedgeSignature(dump string) string {
	if c := classifyStuck(dump); c != "" {
		return c
	}
	set := map[string]bool{}
	loopState := ""
	upfFrames := func(g string) []string {
		var fs []string
		for _, l := range strings.Split(g, "\n")[1:] {
			if strings.HasPrefix(l, "\t") || strings.HasPrefix(l, "created by") {
				continue
			}
			if i := strings.LastIndex(l, "("); i > 0 {
				l = l[:i]
			}
			if (strings.Contains(l, "free5gc/go-upf/internal/") || strings.Contains(l, "khirono/go-nl.")) && !strings.Contains(l, "/verifsim.") && !strings.Contains(l, "/simhook.") {
				fs = append(fs, l[strings.LastIndex(l, "/")+1:])
			}
		}
		return fs
	}
	for _, g := range strings.Split(dump, "\n\n") {
		fs := upfFrames(g)
		if len(fs) == 0 {
			continue
		}
		switch {
		case strings.Contains(g, "pfcp.(*PfcpServer).main("):
			set["loop@"+fs[0]] = true
			// how it waits there: "chan send", "select", "chan receive", ...
			hdr := strings.SplitN(g, "\n", 2)[0]
			if i := strings.Index(hdr, "["); i >= 0 {
				st := hdr[i+1:]
				if j := strings.IndexAny(st, ",(]"); j >= 0 {
					st = st[:j]
				}
				loopState = strings.TrimSpace(st)
			}
		case strings.HasPrefix(fs[0], "pfcp.(*PfcpServer).Notify") && len(fs) > 1:
			set[fs[1]+">"+strings.TrimPrefix(fs[0], "pfcp.(*PfcpServer).")] = true
		}
	}
	// name the cycle: where the loop waits decides which stuck producer closes it (any
	// other stuck producer is collateral)
	perioStuck := set["perio.(*Server).Serve>NotifySessReport"]
	muxStuck := set["buffnetlink.(*Server).ServeMsg>NotifySessReport"]
	switch {
	case (set["loop@perio.(*Server).AddPeriodReportTimer"] || set["loop@perio.(*Server).DelPeriodReportTimer"]) && perioStuck && loopState == "chan send":
		// the known shape D9a is the loop blocked *sending* into the full event queue; the
		// loop waiting there in any other way is a different defect
		return "loop>perio-event-queue|perio>report-queue"
	case set["loop@go-nl.(*Client).Do"] && muxStuck:
		return "loop>netlink-reply|mux>report-queue"
	}
	// an unknown cycle is named by where the event loop waits; which producers are stuck
	// behind it is collateral (and may differ between runs), it is in the report's detail
	var loops, others []string
	for f := range set {
		if strings.HasPrefix(f, "loop@") {
			loops = append(loops, f)
		} else {
			others = append(others, f)
		}
	}
	sort.Strings(loops)
	sort.Strings(others)
	if len(loops) > 0 {
		if loopState != "" && loopState != "chan send" {
			return strings.Join(loops, "|") + "[" + loopState + "]"
		}
		return strings.Join(loops, "|")
	}
	return strings.Join(others, "|")
}

func (s *Sim) mstepLite(f func()) {
	s.stepNo++
	s.stepA.Store(int64(s.stepNo))
	s.bump()
	f()
}

// checkTxDone (C17 runs, judged on the wire only): every time-out notification is
// processed exactly once, so an unanswered request whose retransmissions all fell due long
// ago was sent exactly 1+MaxRetrans times.
func (s *Sim) checkTxDone() {
	if s.cfg.Profile != "C17" || !s.oracleOn("C09") || s.upfDead || s.n4errs() != 0 || s.tearing {
		return
	}
	slack := 30 * time.Second
	// a backlogged event loop (slow data plane, periodic reports piling up) retransmits
	// late, legitimately: only a UPF that has been silent for a while is judged
	outs := s.n4.outSince(0)
	quiet := len(outs) > 0 && s.since()-outs[len(outs)-1].At >= 20*time.Second
	W := time.Duration(s.cfg.RetransMs) * time.Millisecond
	// ... or one that has meanwhile taken a later request through all of its
	// transmissions: time-out events are served in the order they were queued
	overtaken := func(u *UpReq) bool {
		dueAt := u.Sends[len(u.Sends)-1] + W
		for _, v := range s.model.ups {
			if v != u && len(v.Sends) == 1+s.cfg.MaxRetrans && s.cfg.MaxRetrans > 0 && v.Sends[0] > dueAt+time.Second &&
				s.since() > v.Sends[len(v.Sends)-1]+W+time.Second {
				return true
			}
		}
		return false
	}
	for _, u := range s.model.ups {
		if u.Answered || u.MidAns || u.AnsTried || len(u.Sends) == 0 {
			continue
		}
		due := u.Sends[0] + time.Duration((s.cfg.MaxRetrans+1)*s.cfg.RetransMs)*time.Millisecond + slack
		if s.since() < due || !(quiet || overtaken(u)) {
			continue
		}
		s.probe("c17.timeouts.judged", 1)
		if len(u.Sends) != 1+s.cfg.MaxRetrans {
			s.violate("C09", "timeout.exactly-once", "tx:retry-count",
				"request seq=%d to %s, never answered, was sent %d time(s) although all of its 1+%d transmissions fell due more than %v ago", u.Seq, u.Dst, len(u.Sends), s.cfg.MaxRetrans, slack)
		}
	}
}

func (s *Sim) finalChecks() {
	if s.res.Violation != nil || s.res.Harness != "" || s.upfDead || s.stopped1 {
		return
	}
	if s.cfg.Profile == "C18" {
		s.checkProgress("end of run")
		return
	}
	m := s.model
	// let every retention and retransmission deadline pass
	W := m.window()
	s.mstep("adv", nil, func() { s.advance(W + W + 50*1e6) })
	st := s.peek()
	if s.cfg.NoPeek {
		return
	}
	if st.RxLen != 0 {
		s.violate("C06", "rx.released", "rx:leak", "%d receive transactions remain %v after the last request", st.RxLen, 2*W)
	}
	if st.TxLen != 0 {
		s.violate("C09", "tx.released", "tx:leak", "%d transmit transactions remain after all retries were due", st.TxLen)
	}
	for _, u := range m.ups {
		m.abandoned(u, s.since())
		if !u.Answered && len(u.Sends) != 1+s.cfg.MaxRetrans && s.n4errs() == 0 {
			s.violate("C09", "tx.retry-count", "tx:retry-count",
				"request seq=%d to %s was sent %d time(s); unanswered requests are sent 1+%d times", u.Seq, u.Dst, len(u.Sends), s.cfg.MaxRetrans)
		}
	}
	s.finalReports()
	// a report whose transmission met a socket error must still reach its SMF through the
	// ordinary retransmissions, unless every one of them met an error too
	if s.oracleOn("C10") && s.cfg.MaxRetrans >= 1 {
		for _, u := range m.ups {
			if s.since()-u.Sends[0] <= W+100*time.Millisecond {
				continue // its retransmissions are not all due yet (a tick during the final wait)
			}
			if u.ErrSends > 0 && len(u.Sends) == u.ErrSends && u.ErrSends < 1+s.cfg.MaxRetrans && !u.Answered {
				s.violate("C10", "report.delivered", "report:lost:send-error",
					"request seq=%d to %s (%d usage report(s)) met %d socket error(s) and was never transmitted successfully although %d transmissions are allowed",
					u.Seq, u.Dst, len(u.Msg.findAll(ieUsageReportSRR)), u.ErrSends, 1+s.cfg.MaxRetrans)
			}
		}
	}
}

func (s *Sim) n4errs() int {
	s.emu.Lock()
	defer s.emu.Unlock()
	return s.firedM["n4.senderr"]
}
