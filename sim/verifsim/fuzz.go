//go:build verif

package verifsim

// C07: structure-aware malformed datagrams inside valid histories.

import (
	"encoding/hex"
	"fmt"
)

type ieLoc struct {
	off   int // offset of the IE header in the datagram
	vlen  int
	depth int
	typ   uint16
}

var groupedIE = map[uint16]bool{
	ieCreatePDR: true, iePDI: true, ieCreateFAR: true, ieForwardingParams: true, ieCreateURR: true, ieCreateQER: true,
	ieUpdatePDR: true, ieUpdateFAR: true, ieUpdFwdParams: true, ieUpdateURR: true, ieUpdateQER: true,
	ieRemovePDR: true, ieRemoveFAR: true, ieRemoveURR: true, ieRemoveQER: true, ieQueryURR: true,
	ieCreateBAR: true, ieUpdateBARSMR: true, ieRemoveBAR: true,
}

func locateIEs(b []byte, start, end, depth int, out *[]ieLoc) {
	off := start
	for off+4 <= end {
		t := be.Uint16(b[off:])
		l := int(be.Uint16(b[off+2:]))
		if off+4+l > end {
			return
		}
		*out = append(*out, ieLoc{off, l, depth, t})
		if groupedIE[t] && depth < 4 {
			locateIEs(b, off+4, off+4+l, depth+1, out)
		}
		off += 4 + l
	}
}

func hdrLen(b []byte) int {
	if len(b) > 0 && b[0]&1 != 0 {
		return 16
	}
	return 8
}

// fixLen rewrites the message length field to match the datagram.
func fixLen(b []byte) {
	if len(b) >= 4 {
		be.PutUint16(b[2:4], uint16(len(b)-4))
	}
}

var interestingTypes = []uint8{0, 1, 2, 3, 4, 5, 6, 7, 8, 9, 10, 12, 13, 14, 15, 50, 51, 52, 53, 54, 55, 56, 57, 58, 99, 255}

var interestingIETypes = []uint16{0, ieCreatePDR, iePDI, ieCreateFAR, ieForwardingParams, ieCreateURR, ieCreateQER, ieUpdatePDR, ieUpdateFAR, ieUpdFwdParams,
	ieUpdateURR, ieUpdateQER, ieRemovePDR, ieCause, ieSourceInterface, ieFTEID, ieNetworkInstance, ieSDFFilter, ieGateStatus, ieMBR, ieGBR,
	iePrecedence, ieVolumeThreshold, ieReportingTrig, ieForwardingPolicy, ieApplyAction, ieDLDNDelay, iePDRID, ieFSEID, ieNodeID, ieMeasMethod,
	ieMeasPeriod, ieVolumeQuota, ieQueryURR, ieURRID, ieOuterHdrCreation, ieCreateBAR, ieUpdateBARSMR, ieBARID, ieUEIPAddress, ieOuterHdrRemoval,
	ieRecoveryTS, ieMeasInfo, ieFARID, ieQERID, ieRQI, ieQFI, ieSuggBufPktCount, iePagingPolicyInd, 0x7fff, 0x8001, 0xffff}

// mutate applies 1-3 structure-aware mutations to a valid message.
func (g *Gen) mutate(orig []byte) []byte {
	b := append([]byte(nil), orig...)
	n := 1 + g.intn(3)
	for i := 0; i < n && len(b) > 0; i++ {
		var locs []ieLoc
		if len(b) >= hdrLen(b) {
			locateIEs(b, hdrLen(b), len(b), 0, &locs)
		}
		keepLen := g.chance(0.8)
		switch g.intn(16) {
		case 0: // version / flags
			b[0] = byte(g.bv(8))
		case 1:
			b[0] ^= 1 << uint(g.intn(8))
		case 2: // message type
			if len(b) > 1 {
				b[1] = interestingTypes[g.intn(len(interestingTypes))]
			}
		case 3: // message length lies
			if len(b) >= 4 {
				be.PutUint16(b[2:4], uint16(pick(g.rng, 0, 1, 4, 8, 12, len(b)-5, len(b)-3, len(b), 65535, g.intn(65536))))
				keepLen = false
				i = n
				return b
			}
		case 4: // SEID classes
			if len(b) >= 12 && b[0]&1 != 0 {
				be.PutUint64(b[4:12], seidProbes[g.intn(len(seidProbes))])
			}
		case 5: // truncate at an IE boundary or anywhere
			if len(locs) > 0 && g.chance(0.7) {
				l := locs[g.intn(len(locs))]
				cut := pick(g.rng, l.off, l.off+2, l.off+4, l.off+4+l.vlen/2)
				if cut < len(b) {
					b = b[:cut]
				}
			} else {
				b = b[:g.intn(len(b)+1)]
			}
		case 6, 7: // IE length lies (nested lengths included)
			if len(locs) > 0 {
				l := locs[g.intn(len(locs))]
				be.PutUint16(b[l.off+2:], uint16(pick(g.rng, 0, 1, l.vlen-1, l.vlen+1, l.vlen+4, 255, 65535, g.intn(l.vlen+8))))
			}
		case 8: // IE type
			if len(locs) > 0 {
				l := locs[g.intn(len(locs))]
				be.PutUint16(b[l.off:], interestingIETypes[g.intn(len(interestingIETypes))])
			}
		case 9: // shrink an IE's value (flag octets with too-short bodies)
			if len(locs) > 0 {
				l := locs[g.intn(len(locs))]
				keep := 0
				if l.vlen > 0 {
					keep = g.intn(l.vlen)
				}
				nb := append([]byte(nil), b[:l.off+4+keep]...)
				nb = append(nb, b[l.off+4+l.vlen:]...)
				be.PutUint16(nb[l.off+2:], uint16(keep))
				// fix enclosing lengths
				for _, e := range locs {
					if e.off < l.off && e.off+4+e.vlen >= l.off+4+l.vlen && groupedIE[e.typ] {
						be.PutUint16(nb[e.off+2:], uint16(e.vlen-(l.vlen-keep)))
					}
				}
				b = nb
			}
		case 10: // flag octet 0x00 / 0xff
			if len(locs) > 0 {
				l := locs[g.intn(len(locs))]
				if l.vlen > 0 {
					b[l.off+4] = byte(pick(g.rng, 0x00, 0xff, 0x0f, 0xf0, 0x40, 0x80))
				}
			}
		case 11: // empty a grouped IE / delete an IE
			if len(locs) > 0 {
				l := locs[g.intn(len(locs))]
				nb := append([]byte(nil), b[:l.off]...)
				if g.chance(0.5) {
					nb = append(nb, b[l.off:l.off+4]...)
					be.PutUint16(nb[l.off+2:], 0)
				}
				nb = append(nb, b[l.off+4+l.vlen:]...)
				removed := len(b) - len(nb)
				for _, e := range locs {
					if e.off < l.off && e.off+4+e.vlen >= l.off+4+l.vlen && groupedIE[e.typ] {
						be.PutUint16(nb[e.off+2:], uint16(e.vlen-removed))
					}
				}
				b = nb
			}
		case 12: // duplicate an IE
			if len(locs) > 0 {
				l := locs[g.intn(len(locs))]
				if l.depth == 0 {
					b = append(b, b[l.off:l.off+4+l.vlen]...)
				}
			}
		case 13: // random byte flips
			for k := 0; k < 1+g.intn(4); k++ {
				b[g.intn(len(b))] = byte(g.intn(256))
			}
		case 14: // value bytes to extremes
			if len(locs) > 0 {
				l := locs[g.intn(len(locs))]
				fill := pick(g.rng, -1, 0x00, 0x00, 0xff)
				for k := 0; k < l.vlen; k++ {
					if fill >= 0 {
						b[l.off+4+k] = byte(fill) // the whole value at an extreme
					} else {
						b[l.off+4+k] = byte(pick(g.rng, 0x00, 0xff))
					}
				}
			}
		case 15: // sequence number
			if len(b) >= hdrLen(b) {
				o := hdrLen(b) - 4
				b[o], b[o+1], b[o+2] = byte(g.intn(256)), byte(g.intn(256)), byte(g.intn(256))
			}
		}
		if keepLen {
			fixLen(b)
		}
	}
	return b
}

func (g *Gen) rawAction() (Action, bool) {
	s := g.s
	m := s.smfs[g.intn(len(s.smfs))]
	slot := g.intn(s.cfg.NSlots)
	from := ""
	if g.chance(0.15) {
		from = "10.66.0.6:8805"
	}
	switch g.intn(12) {
	case 0: // pure noise
		b := make([]byte, g.intn(64))
		for i := range b {
			b[i] = byte(g.intn(256))
		}
		return Action{Op: "raw", SMF: m.Idx, Raw: hex.EncodeToString(b), From: from}, true
	case 1: // oversize / empty-ish
		n := pick(g.rng, 0, 1, 3, 7, 8, 15, 16, 65535, 65507, 4096)
		b := make([]byte, n)
		if n >= 8 {
			b[0] = 0x20
			b[1] = byte(pick(g.rng, 1, 5, 50, 52))
			fixLen(b)
		}
		return Action{Op: "raw", SMF: m.Idx, Raw: hex.EncodeToString(b), From: from}, true
	case 2:
		if g.chance(0.5) {
			// depth is a size too: a valid Session Establishment / Modification whose first
			// Create PDR (or, failing that, whose message body) also carries a chain of
			// 8..64 grouped IEs nested in each other with an ordinary IE at the bottom. All
			// lengths are consistent; go-pfcp decodes any grouped IE inside any other.
			var in *MsgIntent
			if x := g.liveOf(m, slot); x != nil && g.chance(0.4) {
				in = g.modMsg(m, slot, x)
			} else {
				in = g.estMsg(m, slot)
			}
			b := s.build(m, in)
			leaf := []byte{0, 93, 0, 5, 2, 10, 60, byte(g.intn(256)), byte(1 + g.intn(254))} // UE IP Address, V4
			if g.chance(0.3) {
				leaf = []byte{0, 56, 0, 2, 0, byte(1 + g.intn(4))} // PDR ID
			}
			gt := uint16(pick(g.rng, int(iePDI), int(iePDI), int(ieCreatePDR), int(ieForwardingParams), int(ieCreateFAR)))
			for d, n := 0, pick(g.rng, 8, 20, 33, 48, 64); d < n; d++ {
				w := make([]byte, 4, 4+len(leaf))
				be.PutUint16(w, gt)
				be.PutUint16(w[2:], uint16(len(leaf)))
				leaf = append(w, leaf...)
			}
			var locs []ieLoc
			locateIEs(b, hdrLen(b), len(b), 0, &locs)
			done := false
			for _, l := range locs {
				if l.depth == 0 && l.typ == ieCreatePDR && g.chance(0.8) {
					end := l.off + 4 + l.vlen
					nb := append(append(append([]byte{}, b[:end]...), leaf...), b[end:]...)
					be.PutUint16(nb[l.off+2:], uint16(l.vlen+len(leaf)))
					b, done = nb, true
					break
				}
			}
			if !done {
				b = append(b, leaf...)
			}
			fixLen(b)
			return Action{Op: "raw", SMF: m.Idx, Raw: hex.EncodeToString(b), From: from}, true
		}
	}
	var in *MsgIntent
	switch g.intn(7) {
	case 0:
		in = &MsgIntent{T: "hb", Seq: g.seq(m)}
	case 1:
		in = &MsgIntent{T: "assoc", Seq: g.seq(m)}
	case 2, 3:
		in = g.estMsg(m, slot)
	case 4, 5:
		mm, sl, x := g.anyLive()
		if x != nil {
			m, slot = mm, sl
		}
		g.rich = true
		in = g.modMsg(m, slot, x)
		g.rich = false
	default:
		in = &MsgIntent{T: "del", Seq: g.seq(m), Slot: slot}
	}
	b := g.mutate(s.build(m, in))
	if len(b) > 65535 {
		b = b[:65535]
	}
	return Action{Op: "raw", SMF: m.Idx, Raw: hex.EncodeToString(b), From: from}, true
}

// rawResponse: a response-shaped datagram (any response type, possibly mutated) that
// carries the sequence number of a request the UPF still has outstanding, from the
// address that request went to.
func (g *Gen) rawResponse() (Action, bool) {
	s := g.s
	var open []*UpReq
	for _, u := range s.ansQ {
		if !u.Answered {
			open = append(open, u)
		}
	}
	if len(open) == 0 {
		return Action{}, false
	}
	u := open[g.intn(len(open))]
	t := uint8(pick(g.rng, mtHeartbeatRsp, mtAssocSetupRsp, 4, 8, 10, 13, 15, mtSessEstRsp, mtSessModRsp, mtSessDelRsp, mtSessReportRsp, mtSessReportRsp))
	pm := &PMsg{Type: t, Seq: u.Seq, HasSEID: t >= 50}
	if pm.HasSEID {
		pm.SEID = pick(g.rng, uint64(0), s.model.upSEIDFor(u.CPSEID, u.Dst), 1, ^uint64(0), 1<<63)
	}
	pm.IEs = append(pm.IEs, tlv(ieCause, byte(pick(g.rng, 1, 64, 65, 0, 255))))
	b := pm.Marshal()
	if g.chance(0.3) {
		b = g.mutate(b)
	}
	return Action{Op: "raw", SMF: u.SMF, Raw: hex.EncodeToString(b), From: u.Dst}, true
}

// afterRaw: the C07 oracle for one malformed datagram.
func (s *Sim) checkRaw(ctx *StepCtx) {
	if !s.oracleOn("C07") || ctx.Kind != "deliver" || ctx.Dg.Intent != nil || ctx.Dg.Ans != nil {
		return
	}
	b := ctx.Dg.B
	if _, err := parsePMsg(b); err == nil {
		s.probe("raw.parsed", 1)
	} else {
		s.probe("raw.rejected", 1)
	}
	// sessions not addressed by the datagram are intact
	all := len(b) >= 2 && (b[1] == mtAssocSetupReq || b[1] == mtSessReportRsp || b[1] == mtSessSetDelReq || b[1] == mtAssocRelReq)
	var addressed uint64
	if len(b) >= 12 && b[0]&1 != 0 {
		addressed = be.Uint64(b[4:12])
	}
	if !all {
		post := sessByID(ctx.post)
		proj := s.projections()
		for _, x := range ctx.pre.Sess {
			if x.LocalID == addressed {
				continue
			}
			y, ok := post[x.LocalID]
			if !ok {
				s.violate("C07", "others.intact", "malformed:session-lost", "a datagram addressed to SEID %#x (type %d) removed session %#x: % x", addressed, b[1], x.LocalID, head(b, 64))
			}
			if ctx.preProj[x.LocalID] != proj[x.LocalID] || fmt.Sprint(x.QLens) != fmt.Sprint(y.QLens) {
				s.violate("C07", "others.intact", "malformed:session-changed", "a datagram addressed to SEID %#x (type %d) changed session %#x: % x", addressed, b[1], x.LocalID, head(b, 64))
			}
		}
	}
}

// heartbeatProbe: after a malformed datagram the UPF must still answer a Heartbeat.
func (s *Sim) heartbeatProbe() {
	s.hbSeq++
	pm := &PMsg{Type: mtHeartbeatReq, Seq: 0x700000 + s.hbSeq&0xfffff, IEs: []TLV{{T: ieRecoveryTS, V: u32b(3900000000)}}}
	src := udpAddr("10.77.0.7:8805")
	from := s.n4.outLen()
	s.stepNo++
	s.stepA.Store(int64(s.stepNo))
	s.bump()
	s.logEvent("n4 in (heartbeat probe) seq=%d", pm.Seq)
	s.n4.inject(pm.Marshal(), src)
	s.settle()
	ok := false
	for _, o := range s.n4.outSince(from) {
		if o.Dst == src.String() && len(o.B) >= 8 && o.B[1] == mtHeartbeatRsp {
			if r, err := parsePMsg(o.B); err == nil && r.Seq == pm.Seq {
				ok = true
			}
		}
	}
	if s.upfDead {
		s.violate("C07", "upf.alive", "crash:"+s.crashSite(), "UPF exit hook called while answering a heartbeat")
	}
	if !ok {
		s.violate("C07", "still-serving", "malformed:no-heartbeat", "the UPF no longer answers a Heartbeat Request after the last datagram\n%s", bubbleDump())
	}
	s.probe("hb.probe.ok", 1)
}
