//go:build verif

package verifsim

// refupf: the executable reference model (DESIGN.md §3) and the micro-step machinery
// that keeps it in lock-step with what the simulator delivers to the UPF.

import (
	"fmt"
	"sort"
	"strings"
	"testing/synctest"
	"time"

	"github.com/free5gc/go-upf/internal/pfcp"
	"github.com/free5gc/go-upf/internal/report"
)

type MURR struct {
	ID       uint32
	Method   uint8
	MNOP     bool
	Perio    bool
	PeriodS  uint32
	NextSeq  uint32
	SeqTaint bool
	Inc      int
	Taint    bool // its PDR relation left what C12 quantifies over (duplicate ids, ambiguous update)
}

type MPDR struct {
	ID    uint16
	URRs  map[uint32]string // urr id -> how the reference arose
	Taint bool
}

type MSess struct {
	UP, CP   uint64
	Node     string
	SMF      int
	Slot     int
	Live     bool
	Inc      int
	Req      map[RuleRef]bool
	Ever     map[RuleRef]bool
	Intent   map[RuleRef]*RuleIntent
	PDR      map[uint16]*MPDR
	URR      map[uint32]*MURR
	URRInc   map[uint32]int
	Buf      map[uint16][]uint64
	Dropped  map[uint16]int
	BornAt   int
	BufTaint bool
	Orphans  map[uint16]bool
	Stale    map[uint16]int  // packets queued for a PDR id whose PDR was removed since
	PDRTaint map[uint16]bool // a packet was queued while stale ones may fill the queue: contents unknown
}

type MNode struct {
	ID   string
	Addr string
	Sess map[uint64]bool
}

type MRx struct {
	T0      time.Duration
	Resp    []byte
	HasResp bool
	Count   int
}

type PendK struct {
	K       *KReport
	Sess    *MSess
	Carrier string // response | report
	Flag    uint32 // usage-report-trigger bit that must be set
	Step    int
	Matched bool
}

type Model struct {
	s          *Sim
	nodes      map[string]*MNode
	sess       map[uint64]*MSess
	ended      []*MSess
	incs       map[uint64]int
	rx         map[string]*MRx
	perioSeen  map[RuleKey]perioSeen
	recov      []byte
	pktTag     uint64
	pendK      []*PendK
	bufEmit    map[uint64]*bufPkt
	delFaulted map[RuleKey]bool // URRs whose removal the data plane was made to refuse (fault tag "delurr")
	ups        []*UpReq
	nDeliv     int
	bufCap     int
	curCtx     *StepCtx
	perioTaint bool // a URR was registered twice / its trigger changed: outside C15's quantifier
}

type bufPkt struct {
	tag    uint64
	seid   uint64
	pdr    uint16
	action uint16
	b      []byte
	sess   *MSess
	state  string // inflight queued emitted discarded ...
	nobuff bool   // the notification did not ask for buffering
}

func newModel(s *Sim) *Model {
	return &Model{s: s, nodes: map[string]*MNode{}, sess: map[uint64]*MSess{}, incs: map[uint64]int{},
		rx: map[string]*MRx{}, bufEmit: map[uint64]*bufPkt{}, delFaulted: map[RuleKey]bool{}}
}

func (m *Model) nextPktTag() uint64 { m.pktTag++; return m.pktTag }

func (m *Model) upSEIDFor(cp uint64, dst string) uint64 {
	var ups []uint64
	for up, x := range m.sess {
		if x.CP == cp && m.s.nodeDst(x.Node) == dst {
			ups = append(ups, up)
		}
	}
	if len(ups) == 0 {
		return 0
	}
	sort.Slice(ups, func(i, j int) bool { return ups[i] < ups[j] })
	return ups[0]
}

func (m *Model) liveSEIDs() []uint64 {
	var l []uint64
	for up := range m.sess {
		l = append(l, up)
	}
	sort.Slice(l, func(i, j int) bool { return l[i] < l[j] })
	return l
}

// ---- micro-steps -----------------------------------------------------------------------

type StepCtx struct {
	Kind string
	Dg   *Dgram

	n4From, gtpuFrom, reqFrom, repFrom int
	lateFwd                            []report.SessReport // notifications handed over mid-turn (MidFwd)
	pre                                pfcp.VerifState
	preProj                            map[uint64]string
	preGroups                          map[time.Duration]int
	preRules                           map[RuleKey][]Attr
	t0                                 time.Duration

	N4    []*OutPkt
	GTPU  []*OutPkt
	Reqs  []*NLReq
	KReps []*KReport
	post  pfcp.VerifState

	// filled by the model
	Dup       bool
	Target    *MSess // session addressed by the delivered message (if live)
	Ended     []*MSess
	Resp      []*PMsg
	RespPkt   []*OutPkt
	Foreign   bool // activity not caused by the stimulus happened inside the step
	Matched   *UpReq
	Ambiguous bool
	newUps    []*UpReq
	bufNotes  []*bufPkt
	expTermr  map[uint32]string
	refVia    map[uint32]string
	skipURR   map[uint32]bool
}

func (s *Sim) projections() map[uint64]string {
	out := map[uint64]string{}
	for _, key := range s.kern.allKeys() {
		if _, ok := out[key.SEID]; !ok {
			out[key.SEID] = s.kern.projection(key.SEID)
		}
	}
	return out
}

func (s *Sim) mstep(kind string, dg *Dgram, f func()) {
	s.stepNo++
	s.stepA.Store(int64(s.stepNo))
	// what a detached producer causes during the clock bump belongs to this step
	n4From, gtpuFrom, reqFrom, repFrom := s.n4.outLen(), s.gtpu.outLen(), len(s.kern.reqLog), len(s.kern.reports)
	s.bump()
	synctest.Wait()
	ctx := &StepCtx{Kind: kind, Dg: dg, t0: s.since()}
	s.model.curCtx = ctx
	ctx.n4From, ctx.gtpuFrom, ctx.reqFrom, ctx.repFrom = n4From, gtpuFrom, reqFrom, repFrom
	ctx.pre = s.peek()
	ctx.preProj = s.projections()
	ctx.preGroups = s.perioGroups()
	ctx.preRules = make(map[RuleKey][]Attr, len(s.kern.rules))
	for k, r := range s.kern.rules {
		ctx.preRules[k] = r.Attrs
	}
	repBefore := s.repTotal
	f()
	ctx.N4 = s.n4.outSince(ctx.n4From)
	ctx.GTPU = s.gtpu.outSince(ctx.gtpuFrom)
	ctx.Reqs = append([]*NLReq(nil), s.kern.reqLog[ctx.reqFrom:]...)
	ctx.KReps = append([]*KReport(nil), s.kern.reports[ctx.repFrom:]...)
	ctx.post = s.peek()
	if s.heldReq != nil && kind != "adv" {
		s.heldLastChange = s.since()
	}
	if s.repTotal != repBefore && kind == "deliver" {
		ctx.Foreign = true
	}
	for _, r := range ctx.Reqs {
		if r.Conn == "ps" && kind == "deliver" {
			ctx.Foreign = true
		}
	}
	s.endStep(ctx)
}

func (s *Sim) deliver(dg *Dgram) {
	s.mstep("deliver", dg, func() {
		dg.Delivered++
		s.logEvent("n4 in from=%s % x", dg.Src, dg.B)
		s.n4.inject(dg.B, dg.Src)
		s.settle()
	})
}

func (s *Sim) crashSite() string {
	s.emu.Lock()
	msgs := append([]string(nil), s.exitMsgs...)
	s.emu.Unlock()
	if len(msgs) == 0 {
		return "exit"
	}
	msg := msgs[0]
	first := msg
	if i := strings.Index(first, "\n"); i >= 0 {
		first = first[:i]
	}
	site := "?"
	lines := strings.Split(msg, "\n")
	seenPanic := false
	for _, l := range lines {
		l = strings.TrimSpace(l)
		if strings.HasPrefix(l, "panic(") {
			seenPanic = true
			continue
		}
		if !seenPanic || strings.HasPrefix(l, "/") || strings.HasPrefix(l, "runtime.") || l == "" {
			continue
		}
		if i := strings.LastIndex(l, "("); i > 0 {
			l = l[:i]
		}
		site = l[strings.LastIndex(l, "/")+1:]
		break
	}
	// strip volatile numbers from the message
	first = stripDigits(first)
	return site + ": " + first
}

func stripDigits(x string) string {
	var b strings.Builder
	prevDigit := false
	for _, c := range x {
		if c >= '0' && c <= '9' {
			if !prevDigit {
				b.WriteByte('N')
			}
			prevDigit = true
			continue
		}
		prevDigit = false
		b.WriteRune(c)
	}
	return b.String()
}

func (s *Sim) endStep(ctx *StepCtx) {
	if s.upfDead {
		site := s.crashSite()
		prop := s.cfg.Profile
		s.emu.Lock()
		msg := strings.Join(s.exitMsgs, "\n---\n")
		s.emu.Unlock()
		if len(msg) > 3000 {
			msg = msg[:3000]
		}
		in := ""
		if ctx.Dg != nil {
			in = fmt.Sprintf("datagram from %s: % x", ctx.Dg.Src, ctx.Dg.B)
		}
		s.violate(prop, "upf.alive", "crash:"+site, "UPF exit hook called in step %d (%s) %s\n%s", s.stepNo, ctx.Kind, in, msg)
	}
	m := s.model
	m.observeUps(ctx)
	switch ctx.Kind {
	case "deliver":
		m.onDeliver(ctx)
	case "stop1", "stop2":
	default:
		m.onOther(ctx)
	}
	s.checkStep(ctx)
	s.applyLateFwd(ctx) // if no buffer oracle ran
	s.coverState(ctx)
	if s.cfg.AutoAnswer && !s.stopped1 {
		for _, u := range ctx.newUps {
			if !u.AnsTried {
				s.sendAnswer(-1, u, "ok")
			}
		}
	}
}

// ---- UPF-initiated requests as seen on the wire (C09) ------------------------------------

func (m *Model) observeUps(ctx *StepCtx) {
	s := m.s
	W := time.Duration(s.cfg.RetransMs) * time.Millisecond
	defer func() {
		// an answer injected in the middle of an event-loop turn sat in the socket buffer
		// until the turn ended: a retransmission in between is legitimate; from the end of
		// the step on the request counts as answered
		for _, u := range m.ups {
			if u.MidAns {
				u.MidAns = false
				u.Answered = true
			}
		}
	}()
	for _, o := range ctx.N4 {
		if len(o.B) < 2 || !isRequestType(o.B[1]) {
			continue
		}
		pm, err := parsePMsg(o.B)
		if err != nil {
			s.violate("C09", "tx.wellformed", "tx:undecodable", "the UPF sent an undecodable request: %v (% x)", err, o.B)
		}
		if pm.Type != mtSessReportReq {
			s.violate("C09", "tx.type", "tx:type", "the UPF sent request type %d", pm.Type)
		}
		// a retransmission is a byte-identical copy of a request that is still outstanding
		var prev *UpReq
		for i := len(m.ups) - 1; i >= 0; i-- {
			u := m.ups[i]
			if u.Dst == o.Dst && u.Seq == pm.Seq {
				prev = u
				break
			}
		}
		if prev != nil && string(prev.B) == string(o.B) {
			last := prev.Sends[len(prev.Sends)-1]
			prev.Sends = append(prev.Sends, o.At)
			if o.Err {
				prev.ErrSends++
			}
			s.probe("tx.retransmit", 1)
			if prev.Answered {
				s.violate("C09", "tx.stop-on-response", "tx:retransmit-after-response",
					"request seq=%d to %s retransmitted at %v although a matching response was delivered", prev.Seq, prev.Dst, o.At)
			}
			if len(prev.Sends) > 1+s.cfg.MaxRetrans {
				s.violate("C09", "tx.max-retrans", "tx:too-many-copies",
					"request seq=%d to %s sent %d times with MaxRetrans=%d", prev.Seq, prev.Dst, len(prev.Sends), s.cfg.MaxRetrans)
			}
			if o.At-last < W {
				s.violate("C09", "tx.spacing", "tx:too-early",
					"request seq=%d to %s retransmitted after %v < RetransTimeout %v", prev.Seq, prev.Dst, o.At-last, W)
			}
			continue
		}
		if prev != nil && !prev.Answered && !m.abandoned(prev, o.At) {
			s.violate("C09", "tx.seq-unique", "tx:seq-collision",
				"new request to %s reuses sequence number %d of a request still outstanding", o.Dst, pm.Seq)
		}
		u := &UpReq{N: len(m.ups), Dst: o.Dst, Seq: pm.Seq, CPSEID: pm.SEID, B: o.B, Sends: []time.Duration{o.At}, Msg: pm, SMF: -1}
		if o.Err {
			u.ErrSends++
		}
		for _, f := range s.smfs {
			if f.Rep.String() == o.Dst {
				u.SMF = f.Idx
			}
		}
		if u.SMF < 0 {
			u.SMF = 0
			u.AnsTried = true // nobody lives at that address
		}
		m.ups = append(m.ups, u)
		s.ansQ = append(s.ansQ, u)
		ctx.newUps = append(ctx.newUps, u)
		s.probe("tx.request", 1)
	}
}

func (m *Model) abandoned(u *UpReq, now time.Duration) bool {
	W := time.Duration(m.s.cfg.RetransMs) * time.Millisecond
	ab := len(u.Sends) >= 1+m.s.cfg.MaxRetrans && now-u.Sends[len(u.Sends)-1] >= W
	if ab && !u.Answered && !u.abCounted {
		u.abCounted = true
		m.s.probe("tx.abandoned", 1)
	}
	return ab
}

// ---- delivering a datagram to the UPF -----------------------------------------------------

func (m *Model) window() time.Duration {
	return time.Duration(m.s.cfg.RetransMs) * time.Millisecond * time.Duration(m.s.cfg.MaxRetrans+1)
}

func (m *Model) endSession(x *MSess, ctx *StepCtx) {
	x.Live = false
	delete(m.sess, x.UP)
	if n := m.nodes[x.Node]; n != nil {
		delete(n.Sess, x.UP)
	}
	for _, q := range x.Buf {
		for _, tag := range q {
			if p := m.bufEmit[tag]; p != nil && p.state == "queued" {
				p.state = "discarded"
			}
		}
	}
	x.Buf = map[uint16][]uint64{}
	m.ended = append(m.ended, x)
	ctx.Ended = append(ctx.Ended, x)
}

func (m *Model) onDeliver(ctx *StepCtx) {
	s := m.s
	dg := ctx.Dg
	m.nDeliv++
	// responses to this peer produced in the step
	for _, o := range ctx.N4 {
		if o.Dst != dg.Src.String() || len(o.B) < 2 || isRequestType(o.B[1]) {
			continue
		}
		pm, err := parsePMsg(o.B)
		if err != nil {
			s.violate("C08", "rsp.wellformed", "rsp:undecodable", "undecodable response: %v (% x)", err, o.B)
		}
		ctx.Resp = append(ctx.Resp, pm)
		ctx.RespPkt = append(ctx.RespPkt, o)
	}
	if dg.Intent == nil && dg.Ans == nil {
		return // raw datagram: judged by the C07 oracle only
	}
	if dg.Ans != nil {
		m.onAnswer(ctx)
		return
	}
	in := dg.Intent
	key := fmt.Sprintf("%s-%d", dg.Src, in.Seq&0xffffff)
	now := ctx.t0
	if rx, ok := m.rx[key]; ok && now-rx.T0 < m.window() {
		ctx.Dup = true
		rx.Count++
		s.probe("rx.dup.inside", 1)
		return
	} else if ok {
		s.probe("rx.dup.after", 1)
	}
	rx := &MRx{T0: now}
	m.rx[key] = rx
	if len(ctx.RespPkt) > 0 {
		rx.HasResp = true
		rx.Resp = ctx.RespPkt[0].B
	}

	smf := s.smf(dg.SMF)
	node := smf.NodeID
	if in.NodeID != "" {
		node = in.NodeID
	}
	switch in.T {
	case "assoc":
		if node == "-" {
			return
		}
		if n, ok := m.nodes[node]; ok {
			for _, up := range sortedU64(n.Sess) {
				if x := m.sess[up]; x != nil {
					m.endSession(x, ctx)
				}
			}
		}
		m.nodes[node] = &MNode{ID: node, Addr: dg.Src.String(), Sess: map[uint64]bool{}}
	case "est":
		n, ok := m.nodes[node]
		if node == "-" || !ok || in.NoFSEID {
			return
		}
		// the UP SEID is the UPF's choice: read it from the response
		var up uint64
		for _, r := range ctx.Resp {
			if r.Type == mtSessEstRsp {
				if f, ok := r.find(ieFSEID); ok && len(f.V) >= 9 {
					up = be.Uint64(f.V[1:9])
				}
			}
		}
		x := &MSess{UP: up, CP: in.CPSEID, Node: node, SMF: dg.SMF, Slot: in.Slot, Live: true,
			Req: map[RuleRef]bool{}, Ever: map[RuleRef]bool{}, Intent: map[RuleRef]*RuleIntent{},
			PDR: map[uint16]*MPDR{}, URR: map[uint32]*MURR{}, URRInc: map[uint32]int{}, Buf: map[uint16][]uint64{}, Dropped: map[uint16]int{}, BornAt: s.stepNo, Orphans: map[uint16]bool{}, Stale: map[uint16]int{}, PDRTaint: map[uint16]bool{}}
		ctx.Target = x
		if up == 0 {
			return // oracle C04/C08 reports it
		}
		if old, clash := m.sess[up]; clash {
			s.violate("C04", "seid.unique", "seid:duplicate", "Establishment Response hands out UP SEID %#x which live session (CP %#x, node %s) already holds", up, old.CP, old.Node)
			// C08: "a UP F-SEID that from then on addresses the new session" — not one that
			// (also) addresses a session established earlier and never deleted
			s.violate("C08", "rsp.fseid-addresses-new-session", "rsp:fseid-in-use", "Establishment Response (CP SEID %#x) returns UP F-SEID %#x, which already addresses the live session with CP SEID %#x of node %s", in.CPSEID, up, old.CP, old.Node)
		}
		m.incs[up]++
		x.Inc = m.incs[up]
		if x.Inc > 1 {
			s.probe("seid.reused", 1)
		}
		m.sess[up] = x
		n.Sess[up] = true
		sl := smf.slot(in.Slot)
		sl.CP, sl.UP, sl.Known = in.CPSEID, up, true
		m.applyRules(x, in, ctx)
	case "mod", "del":
		seid := dg.headerSEID()
		x := m.sess[seid]
		if x == nil {
			return
		}
		ctx.Target = x
		if in.T == "del" {
			m.expectDeletion(x, ctx)
			m.endSession(x, ctx)
			return
		}
		if in.NodeID != "" && in.NodeID != "-" && in.NodeID != x.Node {
			m.renameNode(x.Node, in.NodeID)
		}
		m.applyRules(x, in, ctx)
	}
}

func (dg *Dgram) headerSEID() uint64 {
	if len(dg.B) >= 12 && dg.B[0]&1 != 0 {
		return be.Uint64(dg.B[4:12])
	}
	return 0
}

func sortedU64(m map[uint64]bool) []uint64 {
	var l []uint64
	for k := range m {
		l = append(l, k)
	}
	sort.Slice(l, func(i, j int) bool { return l[i] < l[j] })
	return l
}

func (m *Model) renameNode(old, nu string) {
	n := m.nodes[old]
	if n == nil {
		return
	}
	delete(m.nodes, old)
	n.ID = nu
	m.nodes[nu] = n
	for up := range n.Sess {
		if x := m.sess[up]; x != nil {
			x.Node = nu
		}
	}
	m.s.probe("node.takeover", 1)
}

// applyRules advances the model of one session by the rule IEs of an accepted message.
func (m *Model) applyRules(x *MSess, in *MsgIntent, ctx *StepCtx) {
	ctx.expTermr = map[uint32]string{}
	ctx.skipURR = map[uint32]bool{}
	// references before
	before := map[uint32][]string{}
	beforeP := map[uint32]map[uint16]bool{}
	for _, p := range x.PDR {
		for u, via := range p.URRs {
			before[u] = append(before[u], via)
			if beforeP[u] == nil {
				beforeP[u] = map[uint16]bool{}
			}
			beforeP[u][p.ID] = true
			if p.Taint {
				ctx.skipURR[u] = true // listed by a PDR whose list is not known for sure
			}
		}
	}
	removedURR := map[uint32]bool{}
	// creates: URRs first so that a PDR created in the same message sees them
	for i := range in.Create {
		r := &in.Create[i]
		ref := r.ref()
		if r.Kind == "urr" {
			x.Req[ref], x.Ever[ref] = true, true
			x.Intent[ref] = r
			u := &MURR{ID: r.ID}
			if old, ok := x.URR[r.ID]; ok {
				// duplicate create: outside what C11/C12/C15 quantify over
				if old.Perio || r.perio() {
					m.perioTaint = true
				}
				u.SeqTaint = true
				u.Taint = true
				u.NextSeq = old.NextSeq
			}
			for _, rr := range in.Remove {
				if rr.Kind == "urr" && rr.ID == r.ID {
					u.Taint, u.SeqTaint = true, true // created and removed by one message
				}
			}
			x.URRInc[r.ID]++
			u.Inc = x.URRInc[r.ID]
			if r.Method != nil {
				u.Method = *r.Method
			}
			if r.MInfo != nil {
				u.MNOP = *r.MInfo&0x10 != 0
			}
			u.Perio = r.perio()
			if r.Period != nil {
				u.PeriodS = *r.Period
			}
			x.URR[r.ID] = u
		}
	}
	for i := range in.Create {
		r := &in.Create[i]
		ref := r.ref()
		if r.Kind == "urr" {
			continue
		}
		x.Req[ref], x.Ever[ref] = true, true
		x.Intent[ref] = r
		if r.Kind == "pdr" {
			p := &MPDR{ID: uint16(r.ID), URRs: map[uint32]string{}}
			taintAll := false
			if old, dup := x.PDR[uint16(r.ID)]; dup {
				p.Taint = true
				taintAll = true
				for u := range old.URRs {
					if mu := x.URR[u]; mu != nil {
						mu.Taint = true
					}
				}
			}
			for _, rr := range in.Remove {
				if rr.Kind == "pdr" && rr.ID == r.ID {
					taintAll = true // created and removed by one message
				}
			}
			if taintAll {
				for _, u := range r.URRIDs {
					if mu := x.URR[u]; mu != nil {
						mu.Taint = true
					}
				}
			}
			for _, u := range r.URRIDs {
				via := "create_pdr"
				if _, ok := x.URR[u]; !ok {
					via = "create_pdr_before_urr"
				}
				p.URRs[u] = via
			}
			x.PDR[uint16(r.ID)] = p
		}
	}
	for _, ref := range in.Remove {
		switch ref.Kind {
		case "urr":
			if _, ok := x.URR[ref.ID]; ok {
				removedURR[ref.ID] = true
				ctx.expTermr[ref.ID] = "remove_urr"
			}
		case "pdr":
			delete(x.PDR, uint16(ref.ID))
		}
	}
	for i := range in.Update {
		r := &in.Update[i]
		ref := r.ref()
		if !x.Ever[ref] {
			continue
		}
		switch r.Kind {
		case "pdr":
			p := x.PDR[uint16(r.ID)]
			if p == nil {
				continue
			}
			if len(r.URRIDs) == 0 {
				// no URR ID in an Update PDR: "unchanged" or "emptied"? not decided by the
				// property; the PDR's list is unknown until it is stated again
				p.Taint = true
				for u := range p.URRs {
					ctx.skipURR[u] = true
				}
				continue
			}
			if p.Taint {
				for _, u := range r.URRIDs {
					ctx.skipURR[u] = true
				}
				p.Taint = false
			}
			nu := map[uint32]string{}
			for _, u := range r.URRIDs {
				if via, ok := p.URRs[u]; ok {
					nu[u] = via
				} else {
					nu[u] = "update_pdr"
				}
			}
			p.URRs = nu
		case "urr":
			if u := x.URR[r.ID]; u != nil {
				if r.Method != nil {
					u.Method = *r.Method
				}
				if r.MInfo != nil {
					u.MNOP = *r.MInfo&0x10 != 0
				}
			}
		}
	}
	after := map[uint32]bool{}
	newRef := map[uint32]bool{}
	kept := map[uint32]bool{}
	ctx.refVia = map[uint32]string{}
	for _, p := range x.PDR {
		for u, via := range p.URRs {
			after[u] = true
			if !beforeP[u][p.ID] && len(beforeP[u]) > 0 {
				newRef[u] = true
			}
			if beforeP[u][p.ID] {
				kept[u] = true
			}
			if old := ctx.refVia[u]; old == "" || via == "update_pdr" || (via == "create_pdr_before_urr" && old == "create_pdr") {
				ctx.refVia[u] = via
			}
		}
	}
	for u, vias := range before {
		for _, via := range vias {
			if old := ctx.refVia[u]; old == "" || via == "update_pdr" || (via == "create_pdr_before_urr" && old == "create_pdr") {
				ctx.refVia[u] = via
			}
		}
	}
	for u := range newRef {
		if !kept[u] {
			// every PDR that listed it stopped doing so and another one started in the
			// same message: whether it was detached in between is the UPF's choice
			ctx.skipURR[u] = true
		}
	}
	for u, vias := range before {
		if after[u] || removedURR[u] {
			continue
		}
		if _, ok := x.URR[u]; !ok {
			continue
		}
		label := "create_pdr"
		for _, v := range vias {
			if v == "update_pdr" {
				label = v
			} else if v == "create_pdr_before_urr" && label != "update_pdr" {
				label = v
			}
		}
		ctx.expTermr[u] = label
	}
	// removed URRs leave the model after the response has been judged (see checkStep)
}

func (m *Model) expectDeletion(x *MSess, ctx *StepCtx) {
	ctx.expTermr = map[uint32]string{}
	for u := range x.URR {
		ctx.expTermr[u] = "session_deletion"
	}
}

// finishRules is called after the oracles looked at the step: Remove IEs take effect.
func (m *Model) finishRules(x *MSess, in *MsgIntent, ctx *StepCtx) {
	created := map[RuleRef]bool{}
	for i := range in.Create {
		created[in.Create[i].ref()] = true
	}
	for _, ref := range in.Remove {
		if ref.Kind == "urr" {
			if !created[ref] {
				delete(x.URR, ref.ID)
			}
		}
		if created[ref] {
			continue
		}
		if _, still := m.s.kern.rules[RuleKey{ref.Kind, x.UP, uint64(ref.ID)}]; !still {
			delete(x.Req, ref)
		}
	}
}

func (m *Model) onAnswer(ctx *StepCtx) {
	s := m.s
	dg := ctx.Dg
	pm, err := parsePMsg(dg.B)
	if err != nil {
		return
	}
	// which outstanding request, if any, does this response match? (same peer address,
	// same sequence number, still outstanding) -- judged on the wire content alone
	var u *UpReq
	for _, c := range m.ups {
		if c.Dst == dg.Src.String() && c.Seq == pm.Seq && !c.Answered && !m.abandoned(c, ctx.t0) {
			u = c
			break
		}
	}
	if u == nil {
		s.probe("tx.rsp.nomatch", 1)
		return
	}
	u.Answered = true
	ctx.Matched = u
	s.probe("tx.rsp.match", 1)
	if pm.HasSEID && pm.SEID == 0 {
		// the session whose CP SEID and peer match the answered report goes away
		var victim *MSess
		n := 0
		for _, up := range m.liveSEIDs() {
			x := m.sess[up]
			nd := m.nodes[x.Node]
			if x.CP == u.CPSEID && nd != nil && nd.Addr == dg.Src.String() {
				if victim == nil {
					victim = x
				}
				n++
			}
		}
		if n > 1 {
			ctx.Ambiguous = true // the peer gave two of its sessions the same SEID
		}
		if victim != nil {
			ctx.Target = victim
			m.endSession(victim, ctx)
			s.probe("seid0.removed", 1)
		}
	}
}

func (m *Model) onOther(ctx *StepCtx) {}

// noteReportForwarded: a notification leaves the (interposed) report queue for the server.
func (m *Model) noteReportForwarded(sr report.SessReport) {
	for _, r := range sr.Reports {
		d, ok := r.(report.DLDReport)
		if !ok || len(d.BufPkt) < 8 {
			continue
		}
		p := m.bufEmit[be.Uint64(d.BufPkt[:8])]
		if p == nil || p.state != "inflight" {
			continue
		}
		x := m.sess[p.seid]
		if m.curCtx != nil {
			m.curCtx.bufNotes = append(m.curCtx.bufNotes, p)
		}
		switch {
		case x == nil || x != p.sess:
			// the session it was handed up for has ended (its SEID may live on in another)
			p.state = "late-for-ended-session"
			m.s.probe("buf.late.for.ended.session", 1)
			if x != nil {
				x.Stale[p.pdr]++ // the new holder of the SEID may end up holding it; it must never emit it
			}
		case p.nobuff:
			p.state = "notbuffered"
		case !x.Req[RuleRef{"pdr", uint32(p.pdr)}]:
			x.Stale[p.pdr]++
			p.state = "nopdr"
		default:
			if x.Stale[p.pdr] > 0 {
				x.PDRTaint[p.pdr] = true // leftovers may already fill the queue
			}
			x.Buf[p.pdr] = append(x.Buf[p.pdr], p.tag)
			p.state = "queued"
		}
	}
}

func (m *Model) noteBufferEmitted(seid uint64, pdr uint16, action uint16, tag uint64, b []byte) {
	p := &bufPkt{tag: tag, seid: seid, pdr: pdr, action: action, b: b, state: "unknown"}
	m.bufEmit[tag] = p
	x := m.sess[seid]
	p.sess = x           // nil: no session holds that SEID now
	p.state = "inflight" // judged when the notification reaches the server
	if action&0x4 == 0 {
		p.nobuff = true
	}
}
