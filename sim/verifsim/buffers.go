//go:build verif

package verifsim

// C13 / C14: buffered downlink packets. The gNB end of the simulated GTP-U socket
// decodes every datagram with its own TS 29.281 / TS 38.415 reader.

import (
	"bytes"
	"fmt"
	"net"
)

// GPDU is a decoded GTP-U datagram.
type GPDU struct {
	TEID    uint32
	HasExt  bool
	PDUType uint8
	QFI     uint8
	Payload []byte
}

func decodeGPDU(b []byte) (*GPDU, error) {
	if len(b) < 8 {
		return nil, fmt.Errorf("shorter than the mandatory header (%d)", len(b))
	}
	if b[0]>>5 != 1 {
		return nil, fmt.Errorf("version %d", b[0]>>5)
	}
	if b[0]&0x10 == 0 {
		return nil, fmt.Errorf("protocol type is not GTP")
	}
	if b[0]&0x08 != 0 {
		return nil, fmt.Errorf("spare bit set in flags %#x", b[0])
	}
	if b[1] != 255 {
		return nil, fmt.Errorf("message type %d, want 255 (G-PDU)", b[1])
	}
	if int(be.Uint16(b[2:4])) != len(b)-8 {
		return nil, fmt.Errorf("length field %d but %d bytes follow the mandatory header", be.Uint16(b[2:4]), len(b)-8)
	}
	g := &GPDU{TEID: be.Uint32(b[4:8])}
	off := 8
	if b[0]&0x07 != 0 {
		if len(b) < 12 {
			return nil, fmt.Errorf("flags %#x announce optional fields but the datagram ends", b[0])
		}
		next := b[11]
		off = 12
		if b[0]&0x04 == 0 && next != 0 {
			return nil, fmt.Errorf("next-extension type %#x although E is not set", next)
		}
		for next != 0 {
			if len(b) < off+4 {
				return nil, fmt.Errorf("extension header %#x truncated", next)
			}
			n := int(b[off]) * 4
			if n == 0 || len(b) < off+n {
				return nil, fmt.Errorf("extension header %#x has length %d units", next, b[off])
			}
			if next == 0x85 {
				if g.HasExt {
					return nil, fmt.Errorf("two PDU session containers")
				}
				if n != 4 {
					return nil, fmt.Errorf("PDU session container of %d octets, want one 4-octet unit", n)
				}
				g.HasExt = true
				g.PDUType = b[off+1] >> 4
				if b[off+1]&0x0f != 0 {
					return nil, fmt.Errorf("PDU session container: spare bits %#x", b[off+1]&0x0f)
				}
				if b[off+2]&0xc0 != 0 {
					return nil, fmt.Errorf("PDU session container: PPP/RQI bits set (%#x)", b[off+2])
				}
				g.QFI = b[off+2] & 0x3f
			} else {
				return nil, fmt.Errorf("unexpected extension header type %#x", next)
			}
			next = b[off+n-1]
			off += n
		}
	}
	g.Payload = b[off:]
	return g, nil
}

const (
	actDROP = 1
	actFORW = 2
	actBUFF = 4
	actNOCP = 8
)

type release struct {
	optional bool // its PDR is removed by the same message: releasing is allowed, not required
	x     *MSess
	pdr   uint16
	want  []uint64
	peers []string // acceptable destinations "ip:port/teid"
	qfi   [2]int   // acceptable QFI (-1 none): from the rules before the update
	qfis  map[int]bool // every QFI the PDR's QER list can yield at some point of the message
	got   []uint64
}

func ohcOf(attrs []Attr) (string, bool) {
	fp, ok := findAttr(attrs, aFARFP)
	if !ok {
		return "", false
	}
	hc, ok := findAttr(fp.Kids, aFPOHC)
	if !ok {
		return "", false
	}
	var teid uint32
	var port uint16
	var ip net.IP
	if a, ok := findAttr(hc.Kids, aOHCTEID); ok {
		teid = uint32(a.u64())
	}
	if a, ok := findAttr(hc.Kids, aOHCPort); ok {
		port = uint16(a.u64())
	}
	if a, ok := findAttr(hc.Kids, aOHCPeer); ok && len(a.Data) == 4 {
		ip = net.IP(a.Data)
	}
	dst := (&net.UDPAddr{IP: ip, Port: int(port)}).String()
	return fmt.Sprintf("%s/%#x", dst, teid), true
}

func (s *Sim) applyLateFwd(ctx *StepCtx) {
	for _, sr := range ctx.lateFwd {
		s.model.noteReportForwarded(sr)
	}
	ctx.lateFwd = nil
}

func (s *Sim) checkBuffers(ctx *StepCtx) {
	if !s.oracleOn("C13") && !s.oracleOn("C14") {
		return
	}
	m := s.model
	var rels []*release
	relByPDR := map[uint16]*release{}

	if ctx.Kind == "deliver" && ctx.Dg.Intent != nil && !ctx.Dup && ctx.Target != nil && ctx.Dg.Intent.T == "mod" {
		x := ctx.Target
		in := ctx.Dg.Intent
		removedPDR := map[uint16]bool{}
		for _, ref := range in.Remove {
			if ref.Kind == "pdr" {
				removedPDR[uint16(ref.ID)] = true
			}
		}
		nact := 0
		for i := range in.Update {
			if in.Update[i].Kind == "far" && in.Update[i].Action != nil {
				nact++
			}
		}
		for i := range in.Update {
			r := &in.Update[i]
			if r.Kind != "far" || r.Action == nil {
				continue
			}
			pre, exists := ctx.preRules[RuleKey{"far", x.UP, uint64(r.ID)}]
			if !exists || !x.Ever[r.ref()] {
				continue
			}
			refused := false
			for _, q := range ctx.Reqs {
				if q.Fault && q.FaultTag == "farupd" && q.Op == "add-update" && q.Key == (RuleKey{"far", x.UP, uint64(r.ID)}) {
					refused = true
				}
			}
			if refused {
				// the data plane refused this update: the FAR keeps buffering there, and what
				// is queued stays queued
				s.probe("buf.far-update-refused", 1)
				continue
			}
			if nact > 1 || !farIDBeforeAction(r) {
				x.BufTaint = true // several switches in one message / id after action: outside C13's quantifier
				continue
			}
			var preAct uint16
			if a, ok := findAttr(pre, aFARAction); ok {
				preAct = uint16(a.u64())
			}
			if preAct&actBUFF == 0 {
				continue
			}
			nu := *r.Action
			if nu&actDROP == 0 && nu&actFORW == 0 {
				continue
			}
			// PDRs of this FAR, as the data plane knew them before the update
			for key, attrs := range ctx.preRules {
				if key.Kind != "pdr" || key.SEID != x.UP {
					continue
				}
				fa, ok := findAttr(attrs, aPDRFARID)
				if !ok || fa.u64() != uint64(r.ID) {
					continue
				}
				pdr := uint16(key.ID)
				q := x.Buf[pdr]
				x.Buf[pdr] = nil
				if nu&actDROP != 0 {
					if removedPDR[pdr] {
						x.Stale[pdr] += len(q) // removal and switch in one message: order is the UPF's
						for _, tag := range q {
							m.bufEmit[tag].state = "pdr-removed"
						}
						continue
					}
					for _, tag := range q {
						m.bufEmit[tag].state = "discarded"
					}
					s.probe("buf.dropped", len(q))
					continue
				}
				rel := &release{x: x, pdr: pdr, want: q, qfi: [2]int{-1, -1}, optional: removedPDR[pdr]}
				if p, ok := ohcOf(pre); ok {
					rel.peers = append(rel.peers, p)
				}
				post := mergeAttrs(pre, mustAttrs(r))
				if p, ok := ohcOf(post); ok {
					rel.peers = append(rel.peers, p)
				}
				// QFI: first QER of the PDR (in its list order) that has a non-zero QFI
				for _, qa := range findAll(attrs, aPDRQERID) {
					if qr, ok := ctx.preRules[RuleKey{"qer", x.UP, qa.u64()}]; ok {
						if f, ok := findAttr(qr, aQERQFI); ok && f.u64() != 0 {
							rel.qfi[0] = int(f.u64())
							break
						}
					}
				}
				// ... or as they are after the message's removals (order inside a message is the UPF's)
				for _, qa := range findAll(attrs, aPDRQERID) {
					if qr, ok := s.kern.rules[RuleKey{"qer", x.UP, qa.u64()}]; ok {
						if f, ok := findAttr(qr.Attrs, aQERQFI); ok && f.u64() != 0 {
							rel.qfi[1] = int(f.u64())
							break
						}
					}
				}
				// every outcome of "first QER of the list with a non-zero QFI" when each QER
				// is seen as before the message, as after it, or not at all (removed /
				// not yet created): the order of operations inside a message is the UPF's
				rel.qfis = map[int]bool{}
				var opts [][]int
				for _, qa := range findAll(attrs, aPDRQERID) {
					o := []int{}
					add := func(v int) {
						for _, e := range o {
							if e == v {
								return
							}
						}
						o = append(o, v)
					}
					preQ, hadPre := ctx.preRules[RuleKey{"qer", x.UP, qa.u64()}]
					postQ, hasPost := s.kern.rules[RuleKey{"qer", x.UP, qa.u64()}]
					if hadPre {
						v := 0
						if f, ok := findAttr(preQ, aQERQFI); ok {
							v = int(f.u64())
						}
						add(v)
					}
					if hasPost {
						v := 0
						if f, ok := findAttr(postQ.Attrs, aQERQFI); ok {
							v = int(f.u64())
						}
						add(v)
					}
					if !hadPre || !hasPost {
						add(0) // absent at some point: skipped like a QER without QFI
					}
					opts = append(opts, o)
				}
				var walk func(i int)
				walk = func(i int) {
					if i == len(opts) {
						rel.qfis[-1] = true
						return
					}
					for _, v := range opts[i] {
						if v != 0 {
							rel.qfis[v] = true
						} else {
							walk(i + 1)
						}
					}
				}
				walk(0)
				if x.PDRTaint[pdr] {
					rel.optional = true
					delete(x.PDRTaint, pdr)
				}
				rels = append(rels, rel)
				relByPDR[pdr] = rel
			}
		}
		// PDR removal orphans what is queued for it
		for _, ref := range in.Remove {
			if ref.Kind != "pdr" {
				continue
			}
			if _, still := s.kern.rules[RuleKey{"pdr", x.UP, uint64(ref.ID)}]; still {
				continue
			}
			for _, tag := range x.Buf[uint16(ref.ID)] {
				if m.bufEmit[tag].state == "queued" {
					m.bufEmit[tag].state = "pdr-removed"
				}
			}
			if len(x.Buf[uint16(ref.ID)]) > 0 {
				s.probe("buf.pdr.removed.with.packets", 1)
			}
			// the UPF may keep or discard them; what it must not do is emit them later
			x.Stale[uint16(ref.ID)] += len(x.Buf[uint16(ref.ID)])
			x.Buf[uint16(ref.ID)] = nil
		}
	}
	// notifications handed over while the event loop was inside this message's turn are
	// served after it: the model takes them in after the message's effects
	s.applyLateFwd(ctx)

	gtpuErr := false
	for _, o := range ctx.GTPU {
		if o.Err {
			gtpuErr = true
		}
	}
	for _, o := range ctx.GTPU {
		g, err := decodeGPDU(o.B)
		if err != nil {
			s.violateAny([]string{"C14", "C13"}, "gpdu.wellformed", "gpdu:malformed", "re-injected datagram is not a well-formed G-PDU: %v (% x)", err, head(o.B, 48))
			continue
		}
		if len(g.Payload) < 8 {
			s.violateAny([]string{"C14", "C13"}, "gpdu.payload", "gpdu:payload-short", "re-injected payload of %d bytes", len(g.Payload))
			continue
		}
		tag := be.Uint64(g.Payload[:8])
		p := m.bufEmit[tag]
		if p == nil {
			s.violateAny([]string{"C13", "C14"}, "buf.known", "buf:unknown-packet", "re-injected packet was never handed up for buffering (% x)", head(g.Payload, 16))
			continue
		}
		if !bytes.Equal(p.b, g.Payload) {
			s.violate("C14", "gpdu.payload", "gpdu:payload-changed", "payload of packet %d changed: sent up % x, re-injected % x", tag, head(p.b, 24), head(g.Payload, 24))
		}
		if p.state == "late-for-ended-session" {
			s.violate("C13", "buf.scope", "buf:emitted-under-reused-seid",
				"packet %d was handed up for a session (SEID %#x) that ended before the notification was served; it was re-injected under the session that now holds that SEID", tag, p.seid)
			continue
		}
		if p.state == "nopdr" {
			continue // handed up for a PDR id the session did not have: outside the quantifier
		}
		if p.sess != nil && p.sess.BufTaint {
			continue // several FAR switches in one message happened in this session: not tracked
		}
		rel := relByPDR[p.pdr]
		if rel == nil || rel.x != p.sess || (p.state != "queued" && !(p.state == "pdr-removed" && rel.optional)) {
			s.violate("C13", "buf.scope", "buf:emitted-out-of-scope:"+p.state,
				"packet %d (buffered for session %#x PDR %d, state %s) was re-injected in a step that releases %v", tag, p.seid, p.pdr, p.state, relNames(rels))
			continue
		}
		rel.got = append(rel.got, tag)
		p.state = "emitted"
		if o.Err {
			continue
		}
		// destination, TEID, QFI
		dst := fmt.Sprintf("%s/%#x", o.Dst, g.TEID)
		okDst := false
		for _, c := range rel.peers {
			if c == dst {
				okDst = true
			}
		}
		if !okDst {
			s.violate("C13", "buf.tunnel", "buf:wrong-tunnel", "packet %d re-injected to %s, the FAR's peer/TEID is %v", tag, dst, rel.peers)
		}
		want := rel.qfi[0]
		got := -1
		if g.HasExt {
			got = int(g.QFI)
		}
		if rel.qfis[got] {
			want = got
		}
		switch {
		case want < 0 && g.HasExt:
			s.violateAny([]string{"C13", "C14"}, "buf.qfi", "gpdu:unexpected-qfi", "packet %d carries QFI %d although no QoS flow applies", tag, g.QFI)
		case want >= 0 && !g.HasExt:
			s.violateAny([]string{"C13", "C14"}, "buf.qfi", "gpdu:no-qfi", "packet %d lacks the PDU session container, QFI should be %d", tag, want)
		case want >= 0 && (int(g.QFI) != want || g.PDUType != 0):
			s.violateAny([]string{"C14", "C13"}, "gpdu.qfi", "gpdu:qfi", "packet %d carries PDU type %d QFI %d, expected type 0 QFI %d", tag, g.PDUType, g.QFI, want)
		}
		s.probe("gpdu.checked", 1)
	}
	for _, rel := range rels {
		if rel.x.BufTaint {
			continue
		}
		// in order, each once, a prefix of what was pushed
		if len(rel.got) > len(rel.want) {
			s.violate("C13", "buf.once", "buf:duplicate", "PDR %d: %d packets re-injected, %d were queued", rel.pdr, len(rel.got), len(rel.want))
		}
		j := 0
		for _, t := range rel.got {
			for j < len(rel.want) && rel.want[j] != t {
				j++
			}
			if j == len(rel.want) {
				s.violate("C13", "buf.order", "buf:reordered", "PDR %d: re-injected %v, queued in order %v", rel.pdr, rel.got, rel.want)
			}
			j++
		}
		if len(rel.peers) == 0 {
			continue // no tunnel known before or after the switch: nothing can be sent
		}
		if rel.optional {
			x := rel.x
			x.Stale[rel.pdr] += len(rel.want) - len(rel.got)
			for _, t := range rel.want {
				if p := m.bufEmit[t]; p.state == "queued" {
					p.state = "pdr-removed"
				}
			}
			continue
		}
		if !gtpuErr && len(rel.got) != len(rel.want) {
			s.violate("C13", "buf.released", "buf:lost-on-forward",
				"PDR %d of session %#x switched from buffering to forwarding: %d packet(s) queued, %d re-injected", rel.pdr, rel.x.UP, len(rel.want), len(rel.got))
		}
		if len(rel.got) >= 2 {
			s.probe("buf.released.ge2", 1)
		}
		for _, t := range rel.want {
			if p := m.bufEmit[t]; p.state == "queued" {
				p.state = "lost"
			}
		}
	}
	s.checkQueueLens(ctx)
	s.checkNOCP(ctx)
}

func mustAttrs(r *RuleIntent) []Attr {
	a, _ := r.expectAttrs(true)
	return a
}

func farIDBeforeAction(r *RuleIntent) bool {
	for _, l := range labelsOf(r.kids(true)) {
		if l == "id" {
			return true
		}
		if l == "act" {
			return false
		}
	}
	return true
}

func relNames(rels []*release) []string {
	var out []string
	for _, r := range rels {
		out = append(out, fmt.Sprintf("%#x/pdr%d", r.x.UP, r.pdr))
	}
	return out
}

func head(b []byte, n int) []byte {
	if len(b) > n {
		return b[:n]
	}
	return b
}

// checkQueueLens: per session and PDR the UPF holds min(pushed, capacity) packets; the
// capacity is learnt from the first overflow and must be the same every time.
func (s *Sim) checkQueueLens(ctx *StepCtx) {
	m := s.model
	post := sessByID(ctx.post)
	for _, up := range m.liveSEIDs() {
		x := m.sess[up]
		if x.BufTaint {
			continue
		}
		y, ok := post[up]
		if !ok {
			continue
		}
		for pdr, q := range x.Buf {
			have := y.QLens[pdr]
			if st := x.Stale[pdr]; st > 0 && have > len(q) && have <= len(q)+st {
				continue // leftovers of a removed PDR may still be held (never emitted)
			}
			switch {
			case have > len(q):
				s.violate("C13", "buf.held", "buf:phantom", "session %#x PDR %d holds %d packets, only %d were handed up", up, pdr, have, len(q))
			case have < len(q):
				if m.bufCap == 0 {
					m.bufCap = have
					s.probe("buf.overflow", 1)
				}
				if have != m.bufCap {
					s.violate("C13", "buf.capacity", "buf:capacity", "session %#x PDR %d holds %d of %d packets handed up; the capacity seen before was %d", up, pdr, have, len(q), m.bufCap)
				}
				for _, t := range q[have:] {
					m.bufEmit[t].state = "dropped-full"
				}
				x.Buf[pdr] = q[:have]
			default:
				if m.bufCap != 0 && have > m.bufCap {
					s.violate("C13", "buf.capacity", "buf:capacity", "session %#x PDR %d holds %d packets, capacity seen before was %d", up, pdr, have, m.bufCap)
				}
			}
		}
		for pdr, n := range y.QLens {
			if n > x.Stale[pdr] && len(x.Buf[pdr]) == 0 {
				s.violate("C13", "buf.held", "buf:phantom", "session %#x PDR %d holds %d packets nobody handed up for it", up, pdr, n)
			}
		}
	}
}

// checkNOCP: a notification with NOCP for a live session raises one downlink-data
// report towards the owner, and none without.
func (s *Sim) checkNOCP(ctx *StepCtx) {
	if len(ctx.bufNotes) == 0 || !s.oracleOn("C13") {
		return
	}
	want := map[string]int{}
	for _, e := range ctx.bufNotes {
		if e.state == "late-for-ended-session" {
			return // judged by the scope check (emission under a re-used SEID)
		}
	}
	for _, e := range ctx.bufNotes {
		if e.sess != nil && e.action&actNOCP != 0 {
			want[fmt.Sprintf("%s/%#x/%d", s.nodeDst(e.sess.Node), e.sess.CP, e.pdr)]++
		}
	}
	got := map[string]int{}
	for _, u := range ctx.newUps {
		rt, ok := u.Msg.find(ieReportType)
		if !ok || len(rt.V) < 1 || rt.V[0]&1 == 0 {
			continue
		}
		d, ok := u.Msg.find(ieDLDataReport)
		if !ok {
			s.violate("C13", "dldr.content", "dldr:no-report-ie", "downlink data report without Downlink Data Report IE")
			continue
		}
		id, ok := d.kid(iePDRID)
		if !ok || len(id.V) != 2 {
			s.violate("C13", "dldr.content", "dldr:no-pdr", "downlink data report without PDR ID")
			continue
		}
		got[fmt.Sprintf("%s/%#x/%d", u.Dst, u.Msg.SEID, be.Uint16(id.V))]++
	}
	if s.n4errs() > 0 {
		return
	}
	for k, n := range want {
		if got[k] != n {
			s.violate("C13", "dldr.raised", "dldr:missing", "%d buffer notification(s) with NOCP for %s but %d downlink data report(s); all: want %v got %v", n, k, got[k], want, got)
		}
	}
	for k, n := range got {
		if want[k] == 0 {
			s.violate("C13", "dldr.only-when-requested", "dldr:spurious", "%d downlink data report(s) for %s without a NOCP notification; want %v", n, k, want)
		}
	}
}
