//go:build verif

package verifsim

// Start-up simulation (property C20).
//
// One run = one start-up of the UPF: a configuration file is written and read through
// pkg/factory, and, if it is accepted, the gtp5g driver is started against the simulated
// kernel, whose gtp5g version, start-up failures (module not loaded, version query
// failing, link device not creatable) and scheduling at the driver's failure path
// (mux.Close returning before or after the serving goroutine has stopped) are the
// simulator's choices.
//
// The configuration half is a pure function of the file: it is plain seeded input
// generation with an oracle written from the property statement (a catalogue of
// single-field faults that are invalid beyond doubt, and of in-domain variations whose
// values must come back unchanged); it rides on this machinery because the start-up half
// needs the accepted configuration anyway. The start-up half is where schedules and
// faults matter.

import (
	"fmt"
	"os"
	"path/filepath"
	"sort"
	"strconv"
	"strings"
	"testing/synctest"
	"time"

	nl "github.com/khirono/go-nl"

	"github.com/free5gc/go-upf/internal/forwarder"
	"github.com/free5gc/go-upf/internal/pfcp"
	"github.com/free5gc/go-upf/pkg/factory"
)

// StartupPlan is the whole input of a C20 run (part of RunConfig, hence of replay files).
type StartupPlan struct {
	Muts        []string `json:"muts,omitempty"`    // names from the catalogue, applied in order
	KernVersion string   `json:"kernel_version"`    // what the simulated gtp5g module reports
	BootFault   string   `json:"boot_fault,omitempty"` // "", family, version, link
	CloseYield  bool     `json:"close_yield,omitempty"` // at mux.Close: the serving goroutine runs first
}

type ymap = map[string]any

func baseDoc() ymap {
	return ymap{
		"version":     "1.0.3",
		"description": "UPF configuration",
		"pfcp":        ymap{"addr": "10.0.0.1", "nodeID": "10.0.0.1", "retransTimeout": "1s", "maxRetrans": 3},
		"gtpu": ymap{"forwarder": "gtp5g", "ifList": []any{
			ymap{"addr": "10.0.0.1", "type": "N3", "name": "upf.5gc.nctu.me", "ifname": "gtpif", "mtu": 1400}}},
		"dnnList": []any{ymap{"dnn": "internet", "cidr": "10.60.0.0/16", "natifname": "eth0"}},
		"logger":  ymap{"enable": true, "level": "info", "reportCaller": false},
	}
}

type cfgMut struct {
	name    string
	invalid bool // beyond doubt, from the property statement
	apply   func(d ymap)
}

func sub(d ymap, k string) ymap { m, _ := d[k].(ymap); return m }
func if0(d ymap) ymap           { return sub(d, "gtpu")["ifList"].([]any)[0].(ymap) }
func dnn0(d ymap) ymap          { return d["dnnList"].([]any)[0].(ymap) }

var cfgMuts = []cfgMut{
	// ---- in-domain variations: must be accepted, values unchanged
	{"ok:description-absent", false, func(d ymap) { delete(d, "description") }},
	{"ok:pfcp-addr", false, func(d ymap) { sub(d, "pfcp")["addr"] = "192.168.7.9" }},
	{"ok:nodeid-ip", false, func(d ymap) { sub(d, "pfcp")["nodeID"] = "172.16.3.4" }},
	{"ok:nodeid-fqdn", false, func(d ymap) { sub(d, "pfcp")["nodeID"] = "upf1.core.sim" }},
	{"ok:retrans-500ms", false, func(d ymap) { sub(d, "pfcp")["retransTimeout"] = "500ms" }},
	{"ok:retrans-3s", false, func(d ymap) { sub(d, "pfcp")["retransTimeout"] = "3s" }},
	{"ok:maxretrans-0", false, func(d ymap) { sub(d, "pfcp")["maxRetrans"] = 0 }},
	{"ok:maxretrans-255", false, func(d ymap) { sub(d, "pfcp")["maxRetrans"] = 255 }},
	{"ok:maxretrans-absent", false, func(d ymap) { delete(sub(d, "pfcp"), "maxRetrans") }},
	{"ok:if-n9", false, func(d ymap) { if0(d)["type"] = "N9" }},
	{"ok:if-addr", false, func(d ymap) { if0(d)["addr"] = "10.200.200.102" }},
	{"ok:if-mtu", false, func(d ymap) { if0(d)["mtu"] = 9000 }},
	{"ok:if-optional-absent", false, func(d ymap) { delete(if0(d), "name"); delete(if0(d), "ifname"); delete(if0(d), "mtu") }},
	{"ok:two-dnn", false, func(d ymap) {
		d["dnnList"] = append(d["dnnList"].([]any), ymap{"dnn": "ims", "cidr": "10.61.0.0/24"})
	}},
	{"ok:cidr-host", false, func(d ymap) { dnn0(d)["cidr"] = "10.60.0.1/32" }},
	{"ok:cidr-all", false, func(d ymap) { dnn0(d)["cidr"] = "0.0.0.0/0" }},
	{"ok:natif-absent", false, func(d ymap) { delete(dnn0(d), "natifname") }},
	{"ok:level-trace", false, func(d ymap) { sub(d, "logger")["level"] = "trace" }},
	{"ok:level-error", false, func(d ymap) { sub(d, "logger")["level"] = "error" }},
	{"ok:level-panic", false, func(d ymap) { sub(d, "logger")["level"] = "panic" }},
	{"ok:report-caller", false, func(d ymap) { sub(d, "logger")["reportCaller"] = true; sub(d, "logger")["enable"] = false }},
	// ---- single faults: must be rejected
	{"bad:version-absent", true, func(d ymap) { delete(d, "version") }},
	{"bad:version-empty", true, func(d ymap) { d["version"] = "" }},
	{"bad:version-1.0.2", true, func(d ymap) { d["version"] = "1.0.2" }},
	{"bad:version-2.0.0", true, func(d ymap) { d["version"] = "2.0.0" }},
	{"bad:pfcp-absent", true, func(d ymap) { delete(d, "pfcp") }},
	{"bad:pfcp-scalar", true, func(d ymap) { d["pfcp"] = "10.0.0.1" }},
	{"bad:pfcp-addr-absent", true, func(d ymap) { delete(sub(d, "pfcp"), "addr") }},
	{"bad:pfcp-addr-empty", true, func(d ymap) { sub(d, "pfcp")["addr"] = "" }},
	{"bad:pfcp-addr-blank", true, func(d ymap) { sub(d, "pfcp")["addr"] = "10.0.0.1 and more" }},
	{"bad:nodeid-absent", true, func(d ymap) { delete(sub(d, "pfcp"), "nodeID") }},
	{"bad:nodeid-empty", true, func(d ymap) { sub(d, "pfcp")["nodeID"] = "" }},
	{"bad:nodeid-ipv6", true, func(d ymap) { sub(d, "pfcp")["nodeID"] = "2001:db8::8" }}, // go-upf speaks IPv4: its node id must resolve to one
	{"bad:nodeid-unresolvable", true, func(d ymap) { sub(d, "pfcp")["nodeID"] = "no-such-upf.core.sim" }},
	{"bad:retrans-absent", true, func(d ymap) { delete(sub(d, "pfcp"), "retransTimeout") }},
	{"bad:retrans-zero", true, func(d ymap) { sub(d, "pfcp")["retransTimeout"] = "0s" }},
	{"bad:retrans-text", true, func(d ymap) { sub(d, "pfcp")["retransTimeout"] = "soon" }},
	{"bad:maxretrans-300", true, func(d ymap) { sub(d, "pfcp")["maxRetrans"] = 300 }},
	{"bad:maxretrans-negative", true, func(d ymap) { sub(d, "pfcp")["maxRetrans"] = -1 }},
	{"bad:gtpu-absent", true, func(d ymap) { delete(d, "gtpu") }},
	{"bad:forwarder-absent", true, func(d ymap) { delete(sub(d, "gtpu"), "forwarder") }},
	{"bad:forwarder-empty", true, func(d ymap) { sub(d, "gtpu")["forwarder"] = "" }},
	{"bad:forwarder-xdp", true, func(d ymap) { sub(d, "gtpu")["forwarder"] = "xdp" }},
	{"bad:iflist-scalar", true, func(d ymap) { sub(d, "gtpu")["ifList"] = "eth0" }},
	{"bad:if-addr-absent", true, func(d ymap) { delete(if0(d), "addr") }},
	{"bad:if-addr-empty", true, func(d ymap) { if0(d)["addr"] = "" }},
	{"bad:if-type-absent", true, func(d ymap) { delete(if0(d), "type") }},
	{"bad:if-type-n6", true, func(d ymap) { if0(d)["type"] = "N6" }},
	{"bad:if-type-lower", true, func(d ymap) { if0(d)["type"] = "n3" }},
	{"bad:if-mtu-negative", true, func(d ymap) { if0(d)["mtu"] = -1 }},
	{"bad:if-mtu-text", true, func(d ymap) { if0(d)["mtu"] = "jumbo" }},
	{"bad:dnnlist-absent", true, func(d ymap) { delete(d, "dnnList") }},
	{"bad:dnnlist-scalar", true, func(d ymap) { d["dnnList"] = "internet" }},
	{"bad:dnn-absent", true, func(d ymap) { delete(dnn0(d), "dnn") }},
	{"bad:dnn-empty", true, func(d ymap) { dnn0(d)["dnn"] = "" }},
	{"bad:cidr-absent", true, func(d ymap) { delete(dnn0(d), "cidr") }},
	{"bad:cidr-empty", true, func(d ymap) { dnn0(d)["cidr"] = "" }},
	{"bad:cidr-no-prefix", true, func(d ymap) { dnn0(d)["cidr"] = "10.60.0.0" }},
	{"bad:cidr-33", true, func(d ymap) { dnn0(d)["cidr"] = "10.60.0.0/33" }},
	{"bad:cidr-octet", true, func(d ymap) { dnn0(d)["cidr"] = "10.60.0.256/16" }},
	{"bad:cidr-text", true, func(d ymap) { dnn0(d)["cidr"] = "banana" }},
	{"bad:logger-absent", true, func(d ymap) { delete(d, "logger") }},
	{"bad:level-absent", true, func(d ymap) { delete(sub(d, "logger"), "level") }},
	{"bad:level-empty", true, func(d ymap) { sub(d, "logger")["level"] = "" }},
	{"bad:level-loud", true, func(d ymap) { sub(d, "logger")["level"] = "loud" }},
	{"bad:level-upper", true, func(d ymap) { sub(d, "logger")["level"] = "INFO" }},
	{"bad:enable-text", true, func(d ymap) { sub(d, "logger")["enable"] = "sometimes" }},
}

func mutByName(n string) *cfgMut {
	for i := range cfgMuts {
		if cfgMuts[i].name == n {
			return &cfgMuts[i]
		}
	}
	return nil
}

// yamlOf writes the document (keys sorted, strings quoted).
func yamlOf(v any, ind int, b *strings.Builder) {
	pad := strings.Repeat("  ", ind)
	switch x := v.(type) {
	case ymap:
		ks := make([]string, 0, len(x))
		for k := range x {
			ks = append(ks, k)
		}
		sort.Strings(ks)
		for _, k := range ks {
			switch c := x[k].(type) {
			case ymap:
				fmt.Fprintf(b, "%s%s:\n", pad, k)
				yamlOf(c, ind+1, b)
			case []any:
				fmt.Fprintf(b, "%s%s:\n", pad, k)
				for _, it := range c {
					var ib strings.Builder
					yamlOf(it, ind+2, &ib)
					s := ib.String()
					// first line of the item gets the dash
					p2 := strings.Repeat("  ", ind+2)
					s = pad + "  - " + strings.TrimPrefix(s, p2)
					b.WriteString(s)
				}
			default:
				fmt.Fprintf(b, "%s%s: %s\n", pad, k, yscalar(c))
			}
		}
	default:
		fmt.Fprintf(b, "%s%s\n", pad, yscalar(x))
	}
}

func yscalar(v any) string {
	switch x := v.(type) {
	case string:
		return strconv.Quote(x)
	case int:
		return strconv.Itoa(x)
	case bool:
		return strconv.FormatBool(x)
	}
	return fmt.Sprint(v)
}

// versionInRange: 0.9.5 <= v < 0.10.0 for a numeric x.y.z.
func versionInRange(v string) bool {
	p := strings.Split(v, ".")
	if len(p) != 3 {
		return false
	}
	var n [3]int
	for i := range p {
		x, err := strconv.Atoi(p[i])
		if err != nil || x < 0 {
			return false
		}
		n[i] = x
	}
	ge := n[0] > 0 || (n[0] == 0 && (n[1] > 9 || (n[1] == 9 && n[2] >= 5)))
	lt := n[0] == 0 && n[1] < 10
	return ge && lt
}

func startupPlan(seed uint64) *StartupPlan {
	h := func(tag string, i int) uint64 {
		x := seed*0x9e3779b97f4a7c15 + uint64(i)*0xbf58476d1ce4e5b9
		for _, c := range tag {
			x = (x ^ uint64(c)) * 0x100000001b3
		}
		x ^= x >> 29
		x *= 0x94d049bb133111eb
		x ^= x >> 32
		return x
	}
	p := &StartupPlan{}
	// configuration: 0-3 in-domain variations, and in 2 of 5 runs one fault
	var oks, bads []string
	for _, m := range cfgMuts {
		if m.invalid {
			bads = append(bads, m.name)
		} else {
			oks = append(oks, m.name)
		}
	}
	for i := 0; i < int(h("nok", 0)%4); i++ {
		p.Muts = append(p.Muts, oks[h("ok", i)%uint64(len(oks))])
	}
	if h("bad?", 0)%5 < 2 {
		// faults come last: an in-domain variation applied afterwards could repair them
		p.Muts = append(p.Muts, bads[h("bad", 0)%uint64(len(bads))])
		if h("bad2?", 0)%6 == 0 { // multiple faults, randomly
			p.Muts = append(p.Muts, bads[h("bad", 1)%uint64(len(bads))])
		}
	}
	// kernel version: around the two bounds, and anywhere
	near := []string{"0.9.5", "0.9.4", "0.9.6", "0.9.14", "0.9.99", "0.10.0", "0.10.1", "0.9.0", "0.8.99", "1.0.0", "0.0.0", "0.9.50", "0.10.5", "9.9.9", "0.09.5"}
	switch h("ver?", 0) % 4 {
	case 0:
		p.KernVersion = "0.9.5"
	case 1, 2:
		p.KernVersion = near[h("ver", 0)%uint64(len(near))]
	default:
		p.KernVersion = fmt.Sprintf("%d.%d.%d", h("v0", 0)%2, 7+h("v1", 0)%5, h("v2", 0)%20)
	}
	if h("fault?", 0)%4 == 0 {
		p.BootFault = []string{"family", "version", "link"}[h("fault", 0)%3]
	}
	p.CloseYield = h("yield", 0)%2 == 0
	return p
}

// runStartup is one C20 run.
func (s *Sim) runStartup() {
	defer func() {
		if p := recover(); p != nil {
			if _, ok := p.(stopRun); !ok {
				panic(p)
			}
		}
	}()
	plan := s.cfg.Startup
	if plan == nil {
		s.harnessFail("C20 run without a start-up plan")
	}
	s.installSeams()
	s.names["upf1.core.sim"] = []byte{10, 0, 0, 1}

	// ---- the configuration file ---------------------------------------------------------
	doc := baseDoc()
	wantValid := true
	var applied []string
	for _, n := range plan.Muts {
		m := mutByName(n)
		if m == nil {
			continue
		}
		func() {
			defer func() { recover() }() // a mutation whose target an earlier one removed
			m.apply(doc)
			applied = append(applied, n)
			if m.invalid {
				wantValid = false
			}
		}()
	}
	var yb strings.Builder
	yamlOf(doc, 0, &yb)
	dir := os.Getenv("VERIF_TMP")
	if dir == "" {
		dir = os.TempDir()
	}
	f, err := os.CreateTemp(dir, "upfcfg-*.yaml")
	if err != nil {
		s.harnessFail("cannot create a configuration file: %v", err)
	}
	path := f.Name()
	f.WriteString(yb.String())
	f.Close()
	defer os.Remove(path)
	s.logEvent("config %v -> %s", applied, strings.ReplaceAll(yb.String(), "\n", " | "))

	cfg, rerr := factory.ReadConfig(path)
	s.probe("c20.config.read", 1)
	switch {
	case wantValid && rerr != nil:
		s.violate("C20", "config.accept-valid", "cfg:rejected-valid", "a valid configuration (%v) is rejected: %v\n%s", applied, rerr, yb.String())
	case !wantValid && rerr == nil:
		bad := ""
		for _, n := range applied {
			if strings.HasPrefix(n, "bad:") {
				bad += n[4:] + "+"
			}
		}
		s.violate("C20", "config.reject-invalid", "cfg:accepted-invalid:"+strings.TrimSuffix(bad, "+"),
			"an invalid configuration (%v) is accepted\n%s", applied, yb.String())
	case !wantValid:
		s.probe("c20.config.rejected", 1)
		if cfg != nil {
			s.violate("C20", "config.no-partial", "cfg:partial", "ReadConfig returned an error AND a configuration for %v", applied)
		}
		s.res.NonTrivial = true
		return
	}
	s.probe("c20.config.accepted", 1)
	s.checkCfgValues(cfg, doc)

	// ---- start the forwarder against the simulated kernel --------------------------------
	s.kern.version = plan.KernVersion
	s.kern.bootFault = plan.BootFault
	nl.AfterCloseYield = nil
	if plan.CloseYield {
		nl.AfterCloseYield = func() { time.Sleep(2 * time.Nanosecond) }
	}
	wantStart := versionInRange(plan.KernVersion) && plan.BootFault == ""
	done := make(chan struct{})
	var drv forwarder.Driver
	var derr error
	go func() {
		drv, derr = forwarder.NewDriver(&s.wg, cfg)
		close(done)
	}()
	s.advance(time.Millisecond)
	select {
	case <-done:
	default:
		s.violate("C20", "start.returns", "start:hangs", "NewDriver does not return (kernel version %q, start-up fault %q)\n%s", plan.KernVersion, plan.BootFault, bubbleDump())
	}
	s.probe("c20.start.attempts", 1)
	isNil := drv == nil
	if g, ok := drv.(*forwarder.Gtp5g); ok && g == nil {
		isNil = true
	}
	switch {
	case derr == nil && isNil:
		s.violate("C20", "start.error-or-driver", "start:nil-nil", "NewDriver returned neither a driver nor an error (kernel version %q, start-up fault %q)", plan.KernVersion, plan.BootFault)
	case derr == nil && !wantStart:
		s.violate("C20", "start.version-gate", "start:accepted:"+pickStr(plan.BootFault != "", "fault-"+plan.BootFault, "version"),
			"the forwarder started against gtp5g %q with start-up fault %q", plan.KernVersion, plan.BootFault)
	case derr != nil && wantStart:
		s.violate("C20", "start.version-gate", "start:rejected-good", "the forwarder refuses gtp5g %q (no fault injected): %v", plan.KernVersion, derr)
	}
	if derr != nil {
		s.probe("c20.start.refused", 1)
		// nothing may be left running
		wdone := make(chan struct{})
		go func() { s.wg.Wait(); close(wdone) }()
		s.advance(time.Millisecond)
		select {
		case <-wdone:
		default:
			s.violate("C20", "start.no-partial", "start:leak", "NewDriver failed (%v) but goroutines it started are still running\n%s", derr, bubbleDump())
		}
		s.res.NonTrivial = true
		return
	}
	// started: serve one heartbeat, then shut down as pkg/app does
	s.probe("c20.start.ok", 1)
	s.drv = drv
	s.srv = pfcp.NewPfcpServer(cfg, drv)
	drv.HandleReport(simHandler{s})
	s.srv.Start(&s.wg)
	s.settle()
	from := s.n4.outLen()
	hb := (&PMsg{Type: mtHeartbeatReq, Seq: 1, IEs: []TLV{{T: ieRecoveryTS, V: u32b(3900000000)}}}).Marshal()
	s.n4.inject(hb, udpAddr("10.1.0.1:8805"))
	s.settle()
	if len(s.n4.outSince(from)) != 1 {
		s.violate("C20", "start.serves", "start:no-heartbeat", "the started UPF does not answer a Heartbeat Request")
	}
	sd := make(chan struct{})
	go func() { s.srv.Stop(); drv.Close(); s.wg.Wait(); close(sd) }()
	s.advance(time.Millisecond)
	synctest.Wait()
	select {
	case <-sd:
	default:
		s.violate("C20", "start.stops", "start:stuck-at-stop", "the started UPF does not shut down\n%s", bubbleDump())
	}
	s.stopped1, s.stopped2 = true, true
	s.res.NonTrivial = true
}

func pickStr(c bool, a, b string) string {
	if c {
		return a
	}
	return b
}

// checkCfgValues: "accepted values appear unchanged in the running configuration".
func (s *Sim) checkCfgValues(cfg *factory.Config, doc ymap) {
	bad := func(field string, got, want any) {
		s.violate("C20", "config.values", "cfg:value-changed:"+field, "configuration field %s: file says %v, running configuration has %v", field, want, got)
	}
	str := func(m ymap, k string) string { v, _ := m[k].(string); return v }
	num := func(m ymap, k string) int { v, _ := m[k].(int); return v }
	bl := func(m ymap, k string) bool { v, _ := m[k].(bool); return v }
	if cfg.Version != str(doc, "version") {
		bad("version", cfg.Version, doc["version"])
	}
	if cfg.Description != str(doc, "description") {
		bad("description", cfg.Description, doc["description"])
	}
	p := sub(doc, "pfcp")
	if cfg.Pfcp == nil || cfg.Gtpu == nil || cfg.Logger == nil {
		bad("section", "nil", "present")
		return
	}
	if cfg.Pfcp.Addr != str(p, "addr") {
		bad("pfcp.addr", cfg.Pfcp.Addr, p["addr"])
	}
	if cfg.Pfcp.NodeID != str(p, "nodeID") {
		bad("pfcp.nodeID", cfg.Pfcp.NodeID, p["nodeID"])
	}
	if d, err := time.ParseDuration(str(p, "retransTimeout")); err != nil || cfg.Pfcp.RetransTimeout != d {
		bad("pfcp.retransTimeout", cfg.Pfcp.RetransTimeout, p["retransTimeout"])
	}
	if int(cfg.Pfcp.MaxRetrans) != num(p, "maxRetrans") {
		bad("pfcp.maxRetrans", cfg.Pfcp.MaxRetrans, p["maxRetrans"])
	}
	g := sub(doc, "gtpu")
	if cfg.Gtpu.Forwarder != str(g, "forwarder") {
		bad("gtpu.forwarder", cfg.Gtpu.Forwarder, g["forwarder"])
	}
	ifs, _ := g["ifList"].([]any)
	if len(cfg.Gtpu.IfList) != len(ifs) {
		bad("gtpu.ifList.len", len(cfg.Gtpu.IfList), len(ifs))
		return
	}
	for i, it := range ifs {
		m := it.(ymap)
		c := cfg.Gtpu.IfList[i]
		if c.Addr != str(m, "addr") || c.Type != str(m, "type") || c.Name != str(m, "name") || c.IfName != str(m, "ifname") || int(c.MTU) != num(m, "mtu") {
			bad(fmt.Sprintf("gtpu.ifList[%d]", i), fmt.Sprintf("%+v", c), m)
		}
	}
	ds, _ := doc["dnnList"].([]any)
	if len(cfg.DnnList) != len(ds) {
		bad("dnnList.len", len(cfg.DnnList), len(ds))
		return
	}
	for i, it := range ds {
		m := it.(ymap)
		c := cfg.DnnList[i]
		if c.Dnn != str(m, "dnn") || c.Cidr != str(m, "cidr") || c.NatIfName != str(m, "natifname") {
			bad(fmt.Sprintf("dnnList[%d]", i), fmt.Sprintf("%+v", c), m)
		}
	}
	l := sub(doc, "logger")
	if cfg.Logger.Level != str(l, "level") || cfg.Logger.Enable != bl(l, "enable") || cfg.Logger.ReportCaller != bl(l, "reportCaller") {
		bad("logger", fmt.Sprintf("%+v", *cfg.Logger), l)
	}
}

var _ = filepath.Join
