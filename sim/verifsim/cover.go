//go:build verif

package verifsim

// Coverage bookkeeping: abstract states reached, "this rare thing happened" probes and
// the per-property rule that makes a run count as non-trivial in the evidence.

import (
	"fmt"
	"hash/fnv"
	"sort"
)

func bucket(n int) int {
	switch {
	case n <= 2:
		return n
	case n < 8:
		return 3
	case n < 64:
		return 4
	}
	return 5
}

func (s *Sim) coverState(ctx *StepCtx) {
	h := fnv.New64a()
	st := ctx.post
	fmt.Fprintf(h, "n%d|tx%d|rx%d|", len(st.Sess), bucket(st.TxLen), bucket(st.RxLen))
	for _, x := range st.Sess {
		q := 0
		for _, l := range x.QLens {
			q += l
		}
		fmt.Fprintf(h, "s:%d,%d,%d,%d,%d,q%d|", x.PDRs, x.FARs, x.QERs, len(x.URRs), x.BARs, bucket(q))
	}
	var ps []string
	for p, n := range s.perioGroups() {
		ps = append(ps, fmt.Sprintf("%v:%d", p, bucket(n)))
	}
	sort.Strings(ps)
	fmt.Fprintf(h, "%v|k%d|", ps, bucket(len(s.kern.rules)))
	key := fmt.Sprintf("%x", h.Sum64())
	if s.statesSeen == nil {
		s.statesSeen = map[string]bool{}
	}
	if !s.statesSeen[key] {
		s.statesSeen[key] = true
		s.res.States = append(s.res.States, key)
	}
	// probes that need the step context
	m := s.model
	if ctx.Kind == "deliver" && len(ctx.Ended) > 0 {
		withRules := false
		for _, x := range ctx.Ended {
			if ctx.preProj[x.UP] != "" {
				withRules = true
			}
			if s.faultHit[x.UP] {
				s.probe("fault.session.ended", 1)
			}
		}
		if withRules {
			s.probe("sess.ended.withrules", 1)
		}
		if len(ctx.pre.Sess) >= 3 {
			s.probe("iso.3live.end", 1)
		}
	}
	if pg := s.perioGroups(); ctx.preGroups != nil {
		for p := range ctx.preGroups {
			if _, still := pg[p]; !still {
				s.probe("perio.group.released", 1)
			}
		}
	}
	for _, r := range ctx.Reqs {
		if r.Fault {
			if s.faultHit == nil {
				s.faultHit = map[uint64]bool{}
			}
			s.faultHit[r.Key.SEID] = true
		}
	}
	if ctx.Kind == "deliver" && ctx.Dg.Intent != nil && !ctx.Dup {
		in := ctx.Dg.Intent
		switch in.T {
		case "est":
			if ctx.Target != nil {
				s.probe("est.accepted", 1)
			} else {
				s.probe("req.unanswerable", 1)
			}
		case "assoc":
			if in.NodeID == "-" {
				s.probe("req.unanswerable", 1)
			}
		case "mod", "del":
			if ctx.Target == nil {
				s.probe("sess.notfound", 1)
				if ctx.Dg.headerSEID() >= 1<<63 {
					s.probe("seid.high.probed", 1)
				}
			}
		case "other":
			s.probe("req.unanswerable", 1)
		}
	}
	_ = m
}

func (s *Sim) nontrivial() bool {
	p := s.probeM
	f := s.firedM
	switch s.cfg.Profile {
	case "C01":
		return p["fault.session.ended"] > 0 || p["sess.ended.withrules"] >= 2
	case "C04":
		return p["seid.reused"] > 0 && p["seid.high.probed"] > 0
	case "C05":
		return p["iso.3live.end"] > 0
	case "C06":
		return p["rx.dup.inside"] > 0 && p["rx.dup.after"] > 0
	case "C08":
		return p["req.unanswerable"] > 0 && p["est.accepted"] > 0 && p["sess.notfound"] > 0
	case "C09":
		return p["tx.rsp.match"] > 0 && p["tx.abandoned"] > 0
	case "C02":
		return p["c02.uplink.multi-sdf"] > 0 && p["c02.far.update"] > 0
	case "C03":
		return p["c03.rate.ge32bit"] > 0 && p["c03.perio.registered"] > 0 && p["c03.nonperio"] > 0
	case "C10":
		return p["c10.mcast.delivered"] > 0 && p["c10.pulled.delivered"] > 0 && p["c10.dropped.unknown"] > 0
	case "C11":
		return p["c11.seq.ge2"] > 0 && p["c11.carriers"] >= 2
	case "C12":
		return p["c12.termr.lastpdr"] > 0 && p["c12.termr.remove"] > 0
	case "C13", "C14":
		return p["buf.released.ge2"] > 0
	case "C15":
		return p["perio.tick"] >= 2 && p["perio.group.released"] > 0
	case "C17":
		return p["stop.with.pending"] > 0
	case "C18":
		return p["burst.done"] > 0
	case "C07":
		return p["raw.parsed"] > 0 && p["raw.rejected"] > 0
	}
	_ = f
	return false
}
