//go:build verif

package verifsim

// Independent PFCP wire codec for the simulated SMFs: header + TLV trees, written from
// TS 29.244. The UPF under test uses go-pfcp; the simulator's peers do not.

import (
	"encoding/binary"
	"fmt"
	"net"
	"strings"
)

var be = binary.BigEndian

// PFCP message types
const (
	mtHeartbeatReq   = 1
	mtHeartbeatRsp   = 2
	mtPFDMgmtReq     = 3
	mtAssocSetupReq  = 5
	mtAssocSetupRsp  = 6
	mtAssocUpdateReq = 7
	mtAssocRelReq    = 9
	mtNodeReportReq  = 12
	mtSessSetDelReq  = 14
	mtSessEstReq     = 50
	mtSessEstRsp     = 51
	mtSessModReq     = 52
	mtSessModRsp     = 53
	mtSessDelReq     = 54
	mtSessDelRsp     = 55
	mtSessReportReq  = 56
	mtSessReportRsp  = 57
)

// IE types (TS 29.244 table 8.1.2-1)
const (
	ieCreatePDR        = 1
	iePDI              = 2
	ieCreateFAR        = 3
	ieForwardingParams = 4
	ieCreateURR        = 6
	ieCreateQER        = 7
	ieCreatedPDR       = 8
	ieUpdatePDR        = 9
	ieUpdateFAR        = 10
	ieUpdFwdParams     = 11
	ieUpdateURR        = 13
	ieUpdateQER        = 14
	ieRemovePDR        = 15
	ieRemoveFAR        = 16
	ieRemoveURR        = 17
	ieRemoveQER        = 18
	ieCause            = 19
	ieSourceInterface  = 20
	ieFTEID            = 21
	ieNetworkInstance  = 22
	ieSDFFilter        = 23
	ieGateStatus       = 25
	ieMBR              = 26
	ieGBR              = 27
	ieQERCorrID        = 28
	iePrecedence       = 29
	ieVolumeThreshold  = 31
	ieReportingTrig    = 37
	ieReportType       = 39
	ieForwardingPolicy = 41
	ieDestInterface    = 42
	ieApplyAction      = 44
	ieDLDNDelay        = 46
	iePFCPSMReqFlags   = 49
	iePDRID            = 56
	ieFSEID            = 57
	ieNodeID           = 60
	ieMeasMethod       = 62
	ieUsageRepTrigger  = 63
	ieMeasPeriod       = 64
	ieVolumeMeas       = 66
	ieDurationMeas     = 67
	ieVolumeQuota      = 73
	ieStartTime        = 75
	ieEndTime          = 76
	ieQueryURR         = 77
	ieUsageReportSMR   = 78
	ieUsageReportSDR   = 79
	ieUsageReportSRR   = 80
	ieURRID            = 81
	ieDLDataReport     = 83
	ieOuterHdrCreation = 84
	ieCreateBAR        = 85
	ieUpdateBARSMR     = 86
	ieRemoveBAR        = 87
	ieBARID            = 88
	ieUEIPAddress      = 93
	ieOuterHdrRemoval  = 95
	ieRecoveryTS       = 96
	ieMeasInfo         = 100
	ieLinkedURRID      = 82
	ieURSEQN           = 104
	ieFARID            = 108
	ieQERID            = 109
	ieRQI              = 123
	ieQFI              = 124
	ieSuggBufPktCount  = 140
	iePagingPolicyInd  = 158
)

const (
	causeAccepted       = 1
	causeSessCtxNotFund = 65
)

// TLV is one PFCP information element.
type TLV struct {
	T    uint16
	V    []byte
	Kids []TLV // parsed children for grouped IEs (filled on demand)
}

func tlv(t uint16, v ...byte) TLV { return TLV{T: t, V: v} }

func grp(t uint16, kids ...TLV) TLV {
	return TLV{T: t, V: encTLVs(kids)}
}

func encTLVs(ts []TLV) []byte {
	var out []byte
	for _, x := range ts {
		h := make([]byte, 4)
		be.PutUint16(h[0:2], x.T)
		be.PutUint16(h[2:4], uint16(len(x.V)))
		out = append(out, h...)
		out = append(out, x.V...)
	}
	return out
}

func parseTLVs(b []byte) ([]TLV, error) {
	var out []TLV
	for len(b) > 0 {
		if len(b) < 4 {
			return nil, fmt.Errorf("tlv: %d trailing bytes", len(b))
		}
		t := be.Uint16(b[0:2])
		l := int(be.Uint16(b[2:4]))
		if t&0x8000 != 0 {
			return nil, fmt.Errorf("tlv: vendor IE %d", t)
		}
		if 4+l > len(b) {
			return nil, fmt.Errorf("tlv: IE %d length %d exceeds %d", t, l, len(b)-4)
		}
		out = append(out, TLV{T: t, V: append([]byte(nil), b[4:4+l]...)})
		b = b[4+l:]
	}
	return out, nil
}

func u8b(v uint8) []byte   { return []byte{v} }
func u16b(v uint16) []byte { b := make([]byte, 2); be.PutUint16(b, v); return b }
func u32b(v uint32) []byte { b := make([]byte, 4); be.PutUint32(b, v); return b }
func u64b(v uint64) []byte { b := make([]byte, 8); be.PutUint64(b, v); return b }
func u40b(v uint64) []byte {
	return []byte{byte(v >> 32), byte(v >> 24), byte(v >> 16), byte(v >> 8), byte(v)}
}

// PMsg is a PFCP message at wire level.
type PMsg struct {
	Type    uint8
	HasSEID bool
	SEID    uint64
	Seq     uint32
	IEs     []TLV
}

func (m *PMsg) Marshal() []byte {
	body := encTLVs(m.IEs)
	var h []byte
	flags := byte(1 << 5)
	if m.HasSEID {
		flags |= 1
		h = make([]byte, 16)
		be.PutUint64(h[4:12], m.SEID)
		h[12], h[13], h[14] = byte(m.Seq>>16), byte(m.Seq>>8), byte(m.Seq)
	} else {
		h = make([]byte, 8)
		h[4], h[5], h[6] = byte(m.Seq>>16), byte(m.Seq>>8), byte(m.Seq)
	}
	h[0] = flags
	h[1] = m.Type
	be.PutUint16(h[2:4], uint16(len(h)-4+len(body)))
	return append(h, body...)
}

func parsePMsg(b []byte) (*PMsg, error) {
	if len(b) < 8 {
		return nil, fmt.Errorf("pfcp: short message (%d)", len(b))
	}
	if b[0]>>5 != 1 {
		return nil, fmt.Errorf("pfcp: version %d", b[0]>>5)
	}
	m := &PMsg{Type: b[1], HasSEID: b[0]&1 != 0}
	l := int(be.Uint16(b[2:4]))
	if 4+l != len(b) {
		return nil, fmt.Errorf("pfcp: length field %d but %d bytes follow the first four", l, len(b)-4)
	}
	off := 4
	if m.HasSEID {
		if len(b) < 16 {
			return nil, fmt.Errorf("pfcp: short session message")
		}
		m.SEID = be.Uint64(b[4:12])
		off = 12
	}
	m.Seq = uint32(b[off])<<16 | uint32(b[off+1])<<8 | uint32(b[off+2])
	off += 4
	ies, err := parseTLVs(b[off:])
	if err != nil {
		return nil, err
	}
	m.IEs = ies
	return m, nil
}

func (m *PMsg) find(t uint16) (TLV, bool) {
	for _, x := range m.IEs {
		if x.T == t {
			return x, true
		}
	}
	return TLV{}, false
}

func (m *PMsg) findAll(t uint16) []TLV {
	var out []TLV
	for _, x := range m.IEs {
		if x.T == t {
			out = append(out, x)
		}
	}
	return out
}

func (x TLV) kids() []TLV {
	k, err := parseTLVs(x.V)
	if err != nil {
		return nil
	}
	return k
}

func (x TLV) kid(t uint16) (TLV, bool) {
	for _, k := range x.kids() {
		if k.T == t {
			return k, true
		}
	}
	return TLV{}, false
}

func isRequestType(t uint8) bool {
	switch t {
	case mtHeartbeatReq, mtPFDMgmtReq, mtAssocSetupReq, mtAssocUpdateReq, mtAssocRelReq, mtNodeReportReq,
		mtSessSetDelReq, mtSessEstReq, mtSessModReq, mtSessDelReq, mtSessReportReq:
		return true
	}
	return false
}

// nodeIDv4 encodes a Node ID IE: an IPv4 literal as type 0, anything else as an FQDN.
func nodeIDv4(node string) TLV {
	if ip := net.ParseIP(node); ip != nil && ip.To4() != nil {
		a := ip.To4()
		return tlv(ieNodeID, 0, a[0], a[1], a[2], a[3])
	}
	v := []byte{2}
	for _, l := range strings.Split(node, ".") {
		v = append(v, byte(len(l)))
		v = append(v, l...)
	}
	return TLV{T: ieNodeID, V: v}
}

func fseidV4(seid uint64, ip string) TLV {
	a := udpAddr(ip + ":1").IP.To4()
	v := append([]byte{0x02}, u64b(seid)...)
	v = append(v, a...)
	return TLV{T: ieFSEID, V: v}
}
