//go:build verif

package verifsim

// C15: every tick of a measurement period queries exactly the URRs registered with it.

import (
	"fmt"
	"sort"
	"time"
)

// registered: period -> set of (seid, urr) the model says are registered.
func (m *Model) registered() map[time.Duration]map[RuleKey]bool {
	out := map[time.Duration]map[RuleKey]bool{}
	for up, x := range m.sess {
		for id, u := range x.URR {
			if u.Perio && u.PeriodS > 0 {
				p := time.Duration(u.PeriodS) * time.Second
				if out[p] == nil {
					out[p] = map[RuleKey]bool{}
				}
				out[p][RuleKey{"urr", up, uint64(id)}] = true
			}
		}
	}
	return out
}

func keySetString(ks []RuleKey) string {
	var parts []string
	for _, k := range ks {
		parts = append(parts, fmt.Sprintf("%#x:%d", k.SEID, k.ID))
	}
	sort.Strings(parts)
	return fmt.Sprint(parts)
}

// perioSeen: when a registered URR was last queried by a tick (or registered).
type perioSeen struct {
	p  time.Duration
	at time.Duration
}

// checkPerioGaps: "registered for periodic querying with its measurement period" — a URR
// that stays registered is queried every period: never more than one period (plus slack)
// after it was registered or last queried. Judged only where nothing legitimately delays
// or drops ticks (no injected data-plane latency or fault, no socket error), and never
// for the URRs of a session the step itself changed (its groups may have been re-created,
// which restarts their phase).
func (s *Sim) checkPerioGaps(ctx *StepCtx) {
	m := s.model
	now := s.since()
	cur := map[RuleKey]time.Duration{}
	for p, set := range m.registered() {
		for k := range set {
			cur[k] = p
		}
	}
	if m.perioSeen == nil {
		m.perioSeen = map[RuleKey]perioSeen{}
	}
	for k, v := range m.perioSeen {
		if cur[k] != v.p {
			delete(m.perioSeen, k)
		}
	}
	clean := s.heldReq == nil && !s.heldJudge && s.cfg.KernLatency == 0 && !m.perioTaint && s.firedM["dp.untagged"] == 0 && !s.free && !s.stopped1 && !s.tearing
	for _, r := range ctx.Reqs {
		if r.Fault {
			clean = false
		}
	}
	for _, o := range ctx.N4 {
		if o.Err {
			clean = false
		}
	}
	if !clean {
		for k, p := range cur {
			m.perioSeen[k] = perioSeen{p, now}
		}
		return
	}
	const slack = 20 * time.Millisecond
	touched := map[uint64]bool{}
	if ctx.Kind != "adv" {
		if ctx.Target != nil {
			touched[ctx.Target.UP] = true
		}
		for _, e := range ctx.Ended {
			touched[e.UP] = true
		}
	}
	for _, r := range ctx.Reqs {
		if r.Conn != "ps" || r.Op != "multi" {
			continue
		}
		for _, k := range r.Multi {
			v, ok := m.perioSeen[k]
			if !ok {
				continue
			}
			if gap := r.At - v.at; gap > v.p+slack && !touched[k.SEID] && !m.delFaulted[k] {
				s.violate("C15", "tick.period", "tick:late",
					"URR %#x:%d, registered with period %v all along, was queried at %v, %v after it was registered or last queried (%v)", k.SEID, k.ID, v.p, r.At, gap, v.at)
				return
			}
			m.perioSeen[k] = perioSeen{v.p, r.At}
		}
	}
	for k, p := range cur {
		v, ok := m.perioSeen[k]
		if !ok || touched[k.SEID] {
			m.perioSeen[k] = perioSeen{p, now}
			continue
		}
		if ctx.Kind == "adv" && now-v.at > p+slack && !m.delFaulted[k] {
			s.violate("C15", "tick.period", "tick:starved",
				"URR %#x:%d has been registered with period %v since before %v and was not queried for %v", k.SEID, k.ID, p, v.at, now-v.at)
			return
		}
	}
}

func (s *Sim) checkPerio(ctx *StepCtx) {
	if !s.oracleOn("C15") {
		return
	}
	s.checkPerioGaps(ctx)
	m := s.model
	var reqs []*NLReq
	for _, r := range ctx.Reqs {
		if r.Conn == "ps" && r.Op == "multi" {
			reqs = append(reqs, r)
		}
	}
	if len(reqs) == 0 {
		return
	}
	// injected faults: the oracle judges around the two narrow kinds it understands (a
	// multi-URR query refused: that tick is abandoned; the removal of a URR refused: that
	// URR's registration is go-upf's business from then on) and is off for all others
	if m.perioTaint || s.firedM["dp.untagged"] > 0 {
		return
	}
	for _, r := range ctx.Reqs {
		if r.Fault && r.FaultTag != "tickq" && r.FaultTag != "delurr" {
			return
		}
	}
	for _, o := range ctx.N4 {
		if o.Err {
			return
		}
	}
	if ctx.Kind == "deliver" {
		return // registrations change inside the step: judged at the next idle stretch
	}
	if s.heldJudge && s.heldAmbig {
		return
	}
	cur := m.registered()
	reg := cur
	if s.heldJudge && s.heldReg != nil {
		// the first tick of this step was started when the held query was made: it is
		// judged against the registrations of that moment
		reg = s.heldReg
	}
	periodOf := map[RuleKey]time.Duration{}
	index := func() {
		periodOf = map[RuleKey]time.Duration{}
		for p, set := range reg {
			for k := range set {
				periodOf[k] = p
			}
		}
	}
	index()
	describe := func() []string {
		var want []string
		for p, set := range reg {
			var ks []RuleKey
			for k := range set {
				ks = append(ks, k)
			}
			want = append(want, fmt.Sprintf("%v=%s", p, keySetString(ks)))
		}
		sort.Strings(want)
		return want
	}
	// A tick is a run of consecutive queries of the periodic client; its period is that
	// of the first URR it names, and it is complete when that period's set is covered.
	perPeriod := map[time.Duration]int{}
	i := 0
	for i < len(reqs) {
		if i > 0 && s.heldJudge {
			reg = cur // every later tick: today's registrations
			index()
		}
		first := reqs[i]
		if first.Fault {
			// refused: go-upf gives this tick up (whatever it had queried of it already)
			perPeriod[periodOf[first.Multi[0]]]++
			i++
			continue
		}
		if len(first.Multi) == 0 {
			s.violate("C15", "tick.nonempty", "tick:empty-query", "the periodic client sent a multi-report query naming no URR")
			i++
			continue
		}
		p, ok := periodOf[first.Multi[0]]
		if !ok {
			s.violate("C15", "tick.registered-only", "tick:unregistered",
				"a tick at %v queried %#x:%d which is not registered for periodic reporting (removed, or its session ended); registered: %v",
				first.At, first.Multi[0].SEID, first.Multi[0].ID, describe())
			i++
			continue
		}
		set := reg[p]
		need := 0 // URRs go-upf is sure to query: not those whose earlier removal was refused
		for k := range set {
			if !m.delFaulted[k] {
				need++
			}
		}
		seen := map[RuleKey]bool{}
		sure := 0
		n := 0
		abandoned := false
		for i < len(reqs) && (sure < need || n == 0) { // n == 0: always consume the request that opened the tick
			if reqs[i].Fault {
				abandoned = true // a later batch of this tick was refused
				i++
				break
			}
			for _, k := range reqs[i].Multi {
				if seen[k] {
					s.violate("C15", "tick.no-duplicate", "tick:duplicate", "a tick of period %v queried URR %#x:%d twice", p, k.SEID, k.ID)
				}
				if !set[k] {
					s.violate("C15", "tick.exact-set", "tick:wrong-set",
						"a tick of period %v at %v queried %#x:%d which is not registered with that period; registered: %v", p, reqs[i].At, k.SEID, k.ID, describe())
				}
				if !seen[k] && !m.delFaulted[k] {
					sure++
				}
				seen[k] = true
			}
			refused := reqs[i].Errno != 0
			i++
			n++
			if refused {
				// the data plane answered this query with an error of its own (a URR named
				// in it was removed meanwhile): what it names has been judged above; go-upf
				// gives the rest of the tick up
				abandoned = true
				break
			}
		}
		if sure != need && !abandoned {
			var missing []RuleKey
			for k := range set {
				if !seen[k] && !m.delFaulted[k] {
					missing = append(missing, k)
				}
			}
			if len(missing) == 0 {
				perPeriod[p]++
				continue
			}
			s.violate("C15", "tick.exact-set", "tick:missing",
				"a tick of period %v queried %d of its %d registered URRs, missing %s", p, len(seen), len(set), keySetString(missing))
		}
		perPeriod[p]++
		s.probe("perio.tick", 1)
		if n >= 3 {
			s.probe("perio.tick.3batches", 1)
		}
	}
	if ctx.Kind == "adv" && s.cfg.KernLatency == 0 && s.heldReq == nil {
		d := s.since() - ctx.t0
		for p, set := range reg {
			if len(set) == 0 {
				continue
			}
			k := int(d / p)
			n := perPeriod[p]
			if n < k-1 || n > k+1 {
				s.violate("C15", "tick.count", "tick:count", "period %v ticked %d time(s) in an idle stretch of %v (expected %d±1)", p, n, d, k)
			}
		}
	}
}
