//go:build verif

package verifsim

// simkernel: the model gtp5g data plane behind the simulated netlink sockets
// (DESIGN.md §2.4). It never acts on its own: requests written by go-upf are queued by
// Send (called on go-upf's goroutines) and handled later by the simulator's root
// goroutine, one at a time, so the order of all data-plane effects is the simulator's.

import (
	"fmt"
	"sort"
	"sync"
	"syscall"
	"time"

	nl "github.com/khirono/go-nl"
)

type RuleKey struct {
	Kind string // pdr far qer urr bar
	SEID uint64
	ID   uint64
}

func (k RuleKey) String() string { return fmt.Sprintf("%s[%#x:%d]", k.Kind, k.SEID, k.ID) }

type KRule struct {
	Key   RuleKey
	Attrs []Attr // everything but link / id / seid, merged over updates
}

// NLReq is one request as the kernel saw it.
type NLReq struct {
	N      int
	Step   int
	At     time.Duration
	Conn   string // rt main ps bs
	c      *nl.Conn
	Raw    []byte
	Type   uint16
	Flags  uint16
	Seq    uint32
	Cmd    uint8
	Attrs  []Attr
	Op     string // add-create add-update del get report multi version family rt other
	Key    RuleKey
	Multi  []RuleKey
	Errno  int  // what was answered
	Late   bool // effect applied although an error was answered
	Fault  bool // the answer was dictated by an injected fault
	FaultTag string
	Exists bool // rule existed before the request
}

// FaultSpec: fail the (Skip+1)-th data-plane request matching Op/Kind from now on.
type FaultSpec struct {
	Op    string `json:"op"`             // add-create add-update report multi get any
	Kind  string `json:"kind,omitempty"` // "" = any
	Skip  int    `json:"skip"`
	Errno int    `json:"errno"`
	Late  bool   `json:"late,omitempty"`
	Empty bool   `json:"empty,omitempty"` // answer success but without data
	Tag   string `json:"tag,omitempty"`   // a narrow fault kind some oracles know how to judge around
}

// KReport is a usage report the kernel produced, with the values it put on the wire.
type KReport struct {
	N       int
	Step    int
	SEID    uint64
	URRID   uint32
	Trigger uint32 // reporting-trigger cause (multicast) or 0
	Via     string // mcast get multi del update
	Start   time.Time
	End     time.Time
	Vol     [6]uint64 // total ul dl totalpkt ulpkt dlpkt
	Known   bool      // URR existed in the kernel when produced
	Lost    bool      // produced but the reply carrying it was replaced by an injected error
}

type kconn struct {
	c      *nl.Conn
	name   string
	proto  int
	groups []int
	pid    uint32
	closed bool
}

type Kernel struct {
	sim *Sim

	mu      sync.Mutex
	conns   []*kconn
	pending []*NLReq
	nextFd  int
	nGen    int

	// free-running mode: requests are served on the caller's goroutine under amu
	bootFault string // start-up simulation (C20): which start-up request fails
	auto    bool
	autoLat time.Duration
	amu     sync.Mutex
	flog []string

	// below: touched by the root goroutine only (under amu in free-running mode)
	reqLog   []*NLReq
	rules    map[RuleKey]*KRule
	bySEID   map[uint64]map[RuleKey]*KRule // the same rules, per SEID
	ver      map[uint64]uint64             // bumped by every change under a SEID
	projMemo map[uint64]projMemo           // projection(seid) as of ver[seid]
	version  string
	faults   []*FaultSpec
	reports  []*KReport
	repCount map[RuleKey]int
	nReq     int
}

func newKernel(s *Sim) *Kernel {
	return &Kernel{
		sim:      s,
		rules:    map[RuleKey]*KRule{},
		bySEID:   map[uint64]map[RuleKey]*KRule{},
		ver:      map[uint64]uint64{},
		projMemo: map[uint64]projMemo{},
		repCount: map[RuleKey]int{},
		version:  "0.9.5",
		nextFd:   100,
	}
}

// ---- nl.SimKernel ------------------------------------------------------------------

func (k *Kernel) Open(c *nl.Conn, proto int, groups []int) (int, error) {
	k.mu.Lock()
	defer k.mu.Unlock()
	fd := k.nextFd
	k.nextFd++
	kc := &kconn{c: c, proto: proto, groups: append([]int(nil), groups...), pid: uint32(4000 + fd)}
	switch {
	case proto == syscall.NETLINK_ROUTE:
		kc.name = "rt"
	case len(groups) > 0:
		kc.name = "bs"
	default:
		kc.nGenName(k)
	}
	k.conns = append(k.conns, kc)
	return fd, nil
}

func (kc *kconn) nGenName(k *Kernel) {
	if k.nGen == 0 {
		kc.name = "main"
	} else if k.nGen == 1 {
		kc.name = "ps"
	} else {
		kc.name = fmt.Sprintf("gen%d", k.nGen)
	}
	k.nGen++
}

func (k *Kernel) connOf(c *nl.Conn) *kconn {
	for _, kc := range k.conns {
		if kc.c == c {
			return kc
		}
	}
	return nil
}

func (k *Kernel) Send(c *nl.Conn, b []byte) error {
	k.mu.Lock()
	kc := k.connOf(c)
	if kc == nil || kc.closed {
		k.mu.Unlock()
		return syscall.EBADF
	}
	r := &NLReq{Conn: kc.name, c: c, Raw: append([]byte(nil), b...)}
	if k.auto {
		// free-running mode: the request is served on the caller's goroutine, after the
		// configured latency, like a system call
		k.mu.Unlock()
		if err := k.decode(r); err != nil {
			return syscall.EINVAL
		}
		if k.autoLat > 0 {
			switch r.Op {
			case "add-create", "add-update", "del", "report", "get":
				time.Sleep(k.autoLat)
			case "multi":
				// the periodic server's query of a whole period group: slower, so that a
				// tick in progress overlaps several requests of the event loop
				time.Sleep(20 * k.autoLat)
			}
		}
		k.amu.Lock()
		k.handle(r)
		k.amu.Unlock()
		return nil
	}
	k.pending = append(k.pending, r)
	k.mu.Unlock()
	k.sim.kickRoot()
	return nil
}

func (k *Kernel) Close(c *nl.Conn) {
	k.mu.Lock()
	if kc := k.connOf(c); kc != nil {
		kc.closed = true
	}
	k.mu.Unlock()
}

func (k *Kernel) IfnameToIndex(name string) (int, error) {
	if name == "upfgtp" {
		return 7, nil
	}
	return 0, syscall.ENODEV
}

// ---- root-side ---------------------------------------------------------------------

func (k *Kernel) pendingCount() int {
	k.mu.Lock()
	defer k.mu.Unlock()
	return len(k.pending)
}

// takePending removes and returns one pending request. If requests from several sockets
// are outstanding, pick chooses which socket goes first (per-socket order is FIFO).
func (k *Kernel) takePending(pick func(n int) int) *NLReq {
	k.mu.Lock()
	defer k.mu.Unlock()
	if len(k.pending) == 0 {
		return nil
	}
	var names []string
	seen := map[string]bool{}
	for _, r := range k.pending {
		if !seen[r.Conn] {
			seen[r.Conn] = true
			names = append(names, r.Conn)
		}
	}
	want := names[0]
	if len(names) > 1 {
		sort.Strings(names)
		want = names[pick(len(names))]
	}
	for i, r := range k.pending {
		if r.Conn == want {
			k.pending = append(k.pending[:i], k.pending[i+1:]...)
			return r
		}
	}
	return nil
}

func (k *Kernel) bsConn() *nl.Conn {
	k.mu.Lock()
	defer k.mu.Unlock()
	for _, kc := range k.conns {
		if kc.name == "bs" && !kc.closed {
			return kc.c
		}
	}
	return nil
}

func (k *Kernel) pidOf(c *nl.Conn) uint32 {
	k.mu.Lock()
	defer k.mu.Unlock()
	if kc := k.connOf(c); kc != nil {
		return kc.pid
	}
	return 1
}

var kindOfCmd = map[uint8][2]string{
	cmdAddPDR: {"add", "pdr"}, cmdAddFAR: {"add", "far"}, cmdAddQER: {"add", "qer"}, cmdAddURR: {"add", "urr"}, cmdAddBAR: {"add", "bar"},
	cmdDelPDR: {"del", "pdr"}, cmdDelFAR: {"del", "far"}, cmdDelQER: {"del", "qer"}, cmdDelURR: {"del", "urr"}, cmdDelBAR: {"del", "bar"},
	cmdGetPDR: {"get", "pdr"}, cmdGetFAR: {"get", "far"}, cmdGetQER: {"get", "qer"}, cmdGetURR: {"get", "urr"}, cmdGetBAR: {"get", "bar"},
}

var seidAttrOf = map[string]uint16{"pdr": aPDRSEID, "far": aFARSEID, "qer": aQERSEID, "urr": aURRSEID, "bar": aBARSEID}

// decode fills the parsed view of a request. An undecodable request is a harness-level
// surprise: go-upf only emits what go-gtp5gnl builds.
func (k *Kernel) decode(r *NLReq) error {
	if len(r.Raw) < 16 {
		return fmt.Errorf("short netlink message (%d bytes)", len(r.Raw))
	}
	r.Type = le.Uint16(r.Raw[4:6])
	r.Flags = le.Uint16(r.Raw[6:8])
	r.Seq = le.Uint32(r.Raw[8:12])
	if int(le.Uint32(r.Raw[0:4])) != len(r.Raw) {
		return fmt.Errorf("netlink length field %d != datagram length %d", le.Uint32(r.Raw[0:4]), len(r.Raw))
	}
	body := r.Raw[16:]
	switch {
	case r.Conn == "rt":
		r.Op = "rt"
		return nil
	case r.Type == genlIDCtrl:
		if len(body) < 4 {
			return fmt.Errorf("short genl header")
		}
		r.Cmd = body[0]
		as, err := parseAttrs(body[4:])
		if err != nil {
			return err
		}
		r.Attrs = as
		r.Op = "family"
		return nil
	case r.Type == gtp5gFamilyID:
		if len(body) < 4 {
			return fmt.Errorf("short genl header")
		}
		r.Cmd = body[0]
		as, err := parseAttrs(body[4:])
		if err != nil {
			return err
		}
		r.Attrs = as
		if ok, has := kindOfCmd[r.Cmd]; has {
			kind := ok[1]
			r.Key.Kind = kind
			ida, hasID := findAttr(as, 3)
			if !hasID {
				return fmt.Errorf("%s %s without id attribute", ok[0], kind)
			}
			r.Key.ID = ida.u64()
			if sa, ok := findAttr(as, seidAttrOf[kind]); ok {
				r.Key.SEID = sa.u64()
			}
			switch ok[0] {
			case "add":
				if r.Flags&nlmFReplace != 0 {
					r.Op = "add-update"
				} else {
					r.Op = "add-create"
				}
			default:
				r.Op = ok[0]
			}
			return nil
		}
		switch r.Cmd {
		case cmdGetVersion:
			r.Op = "version"
		case cmdGetReport:
			r.Op = "report"
			r.Key.Kind = "urr"
			if a, ok := findAttr(as, aURRID); ok {
				r.Key.ID = a.u64()
			}
			if a, ok := findAttr(as, aURRSEID); ok {
				r.Key.SEID = a.u64()
			}
		case cmdGetMultiReports:
			r.Op = "multi"
			for _, m := range findAll(as, aURRMulti) {
				key := RuleKey{Kind: "urr"}
				if a, ok := findAttr(m.Kids, aURRID); ok {
					key.ID = a.u64()
				}
				if a, ok := findAttr(m.Kids, aURRSEID); ok {
					key.SEID = a.u64()
				}
				r.Multi = append(r.Multi, key)
			}
			if a, ok := findAttr(as, aURRNum); ok && int(a.u64()) != len(r.Multi) {
				return fmt.Errorf("multi-report URR_NUM=%d but %d entries", a.u64(), len(r.Multi))
			}
		default:
			r.Op = "other"
		}
		return nil
	}
	r.Op = "other"
	return nil
}

func (k *Kernel) matchFault(r *NLReq) *FaultSpec {
	for i, f := range k.faults {
		ok := false
		switch f.Op {
		case "any":
			ok = r.Op == "add-create" || r.Op == "add-update" || r.Op == "report" || r.Op == "multi" || r.Op == "get"
		default:
			ok = f.Op == r.Op
		}
		if ok && f.Kind != "" && f.Kind != r.Key.Kind {
			ok = false
		}
		if !ok {
			continue
		}
		if f.Skip > 0 {
			f.Skip--
			continue
		}
		k.faults = append(k.faults[:i], k.faults[i+1:]...)
		return f
	}
	return nil
}

func stripIDs(kind string, as []Attr) []Attr {
	var out []Attr
	for _, a := range as {
		if a.Type == aLink || a.Type == 3 || a.Type == seidAttrOf[kind] {
			continue
		}
		out = append(out, a)
	}
	return out
}

func mergeAttrs(old, upd []Attr) []Attr {
	types := map[uint16]bool{}
	for _, a := range upd {
		types[a.Type] = true
	}
	var out []Attr
	for _, a := range old {
		if !types[a.Type] {
			out = append(out, a)
		}
	}
	for _, a := range upd {
		if a.Nested {
			if o, ok := findAttr(old, a.Type); ok && o.Nested && len(findAll(upd, a.Type)) == 1 {
				a = Attr{Type: a.Type, Nested: true, Kids: mergeAttrs(o.Kids, a.Kids)}
			}
		}
		out = append(out, a)
	}
	return out
}

// handle executes one request and delivers its answer to the socket it came from.
func (k *Kernel) handle(r *NLReq) {
	s := k.sim
	k.nReq++
	r.N = k.nReq
	r.Step = s.curStep()
	r.At = s.since()
	if r.Op == "" {
		if err := k.decode(r); err != nil {
			s.harnessFail("simkernel cannot decode a request from go-upf: %v (% x)", err, r.Raw)
			return
		}
	}
	k.reqLog = append(k.reqLog, r)
	pid := k.pidOf(r.c)
	var data [][]byte
	errno := 0

	switch r.Op {
	case "rt":
		// link create / up / remove / route add: acknowledged
		if k.bootFault == "link" && r.Flags&0x400 != 0 {
			k.bootFault = ""
			s.fired("boot.link-error", 1)
			errno = int(syscall.EEXIST) // the device already exists / cannot be created
		}
	case "family":
		if k.bootFault == "family" {
			s.fired("boot.family-error", 1)
			errno = int(syscall.ENOENT) // module not loaded
			break
		}
		name := ""
		if a, ok := findAttr(r.Attrs, ctrlAttrFamilyName); ok {
			name = cstr(a.Data)
		}
		if r.Cmd != ctrlCmdGetFamily || name != "gtp5g" {
			errno = int(syscall.ENOENT)
			break
		}
		data = append(data, nlmsg(genlIDCtrl, 0, r.Seq, pid, genlBody(ctrlCmdNewFamily, 2, []Attr{
			aStr(ctrlAttrFamilyName, "gtp5g"),
			aU16(ctrlAttrFamilyID, gtp5gFamilyID),
			aU32(ctrlAttrVersion, 0),
			aU32(ctrlAttrHdrSize, 0),
			aU32(ctrlAttrMaxAttr, 16),
			aNest(ctrlAttrMcastGroups, aNest(1, aU32(ctrlAttrMcastID, gtp5gMcastGrp), aStr(ctrlAttrMcastName, "gtp5g"))),
		})))
	case "version":
		if k.bootFault == "version" {
			s.fired("boot.version-error", 1)
			errno = int(syscall.EOPNOTSUPP)
			break
		}
		data = append(data, nlmsg(gtp5gFamilyID, 0, r.Seq, pid, genlBody(cmdGetVersion, 0, []Attr{aStr(1, k.version)})))
	case "add-create", "add-update", "del", "get", "report", "multi":
		f := k.matchFault(r)
		if f != nil {
			r.Fault = true
			r.FaultTag = f.Tag
			s.fired("dp."+faultName(f), 1)
			if f.Tag == "" {
				s.fired("dp.untagged", 1)
			} else {
				s.fired("dp.tag."+f.Tag, 1)
				if f.Tag == "delurr" && !k.auto {
					s.model.delFaulted[r.Key] = true
				}
			}
		}
		errno, data = k.exec(r, f, pid)
	default:
		errno = int(syscall.EOPNOTSUPP)
	}
	r.Errno = errno
	if k.auto {
		if len(k.flog) < 4000 {
			k.flog = append(k.flog, fmt.Sprintf("[free %v] nl %s %s %s flags=%#x errno=%d", s.since(), r.Conn, r.Op, r.Key, r.Flags, errno))
		}
	} else {
		s.logEvent("nl %s %s %s flags=%#x errno=%d late=%v %s", r.Conn, r.Op, r.Key, r.Flags, errno, r.Late, canonAttrs(r.Attrs))
	}

	var out []byte
	for _, d := range data {
		out = append(out, d...)
	}
	needAck := r.Flags&nlmFAck != 0
	if errno != 0 || needAck {
		out = append(out, nlerr(r.Seq, pid, errno, r.Raw)...)
	}
	if len(out) > 0 {
		r.c.Deliver(out)
	}
}

func faultName(f *FaultSpec) string {
	switch {
	case f.Empty:
		return "empty"
	case f.Late:
		return "latefail"
	}
	return "reject"
}

func cstr(b []byte) string {
	for i, c := range b {
		if c == 0 {
			return string(b[:i])
		}
	}
	return string(b)
}

func (k *Kernel) exec(r *NLReq, f *FaultSpec, pid uint32) (int, [][]byte) {
	rule, exists := k.rules[r.Key]
	r.Exists = exists
	repFrom := len(k.reports)
	defer func() {
		if f != nil && (f.Late || f.Empty) {
			for _, rep := range k.reports[repFrom:] {
				rep.Lost = true
			}
		}
	}()
	reject := f != nil && !f.Late && !f.Empty
	if reject {
		return f.Errno, nil
	}
	var data [][]byte
	errno := 0
	switch r.Op {
	case "add-create":
		if exists {
			return int(syscall.EEXIST), nil
		}
		k.rules[r.Key] = &KRule{Key: r.Key, Attrs: stripIDs(r.Key.Kind, r.Attrs)}
		if k.bySEID[r.Key.SEID] == nil {
			k.bySEID[r.Key.SEID] = map[RuleKey]*KRule{}
		}
		k.bySEID[r.Key.SEID][r.Key] = k.rules[r.Key]
		k.ver[r.Key.SEID]++
	case "add-update":
		if !exists {
			return int(syscall.ENOENT), nil
		}
		rule.Attrs = mergeAttrs(rule.Attrs, stripIDs(r.Key.Kind, r.Attrs))
		if r.Key.Kind == "urr" && k.sim.hash("urrupd", r.Key.SEID, r.Key.ID, uint64(r.N))%2 == 0 && (f == nil || !f.Empty) {
			rep := k.makeReport(r.Key, 0, "update")
			data = append(data, nlmsg(gtp5gFamilyID, 0, r.Seq, pid, genlBody(cmdAddURR, 0, []Attr{rep.attr()})))
		}
	case "del":
		if !exists {
			return int(syscall.ENOENT), nil
		}
		if r.Key.Kind == "urr" && (f == nil || !f.Empty) {
			rep := k.makeReport(r.Key, 0, "del")
			data = append(data, nlmsg(gtp5gFamilyID, 0, r.Seq, pid, genlBody(cmdDelURR, 0, []Attr{rep.attr()})))
		}
		delete(k.rules, r.Key)
		delete(k.bySEID[r.Key.SEID], r.Key)
		k.ver[r.Key.SEID]++
		if len(k.bySEID[r.Key.SEID]) == 0 {
			delete(k.bySEID, r.Key.SEID)
		}
	case "get":
		if !exists {
			return int(syscall.ENOENT), nil
		}
		if f == nil || !f.Empty {
			data = append(data, nlmsg(gtp5gFamilyID, 0, r.Seq, pid, genlBody(r.Cmd, 0, k.getAttrs(rule))))
		}
	case "report":
		if !exists {
			return int(syscall.ENOENT), nil
		}
		if f == nil || !f.Empty {
			rep := k.makeReport(r.Key, 0, "get")
			data = append(data, nlmsg(gtp5gFamilyID, 0, r.Seq, pid, genlBody(cmdGetReport, 0, []Attr{rep.attr()})))
		}
	case "multi":
		// A reply must fit one netlink message: 7856 bytes of attributes at 140 per report.
		if len(r.Multi)*140 > 7856 {
			k.sim.probe("multi.toobig", 1)
			return int(syscall.EMSGSIZE), nil
		}
		for _, key := range r.Multi {
			if _, ok := k.rules[key]; !ok {
				k.sim.probe("multi.missing", 1)
				return int(syscall.ENOENT), nil
			}
		}
		if f == nil || !f.Empty {
			var urs []Attr
			for _, key := range r.Multi {
				rep := k.makeReport(key, 0, "multi")
				urs = append(urs, rep.attr())
			}
			data = append(data, nlmsg(gtp5gFamilyID, 0, r.Seq, pid, genlBody(cmdGetMultiReports, 0, urs)))
		}
	}
	if f != nil && f.Late {
		r.Late = true
		return f.Errno, nil
	}
	return errno, data
}

// getAttrs is what a GET returns: the stored rule plus the relations gtp5g reports back.
func (k *Kernel) getAttrs(rule *KRule) []Attr {
	key := rule.Key
	var out []Attr
	switch key.Kind {
	case "pdr":
		out = append(out, aU16(aPDRID, uint16(key.ID)), aU64(aPDRSEID, key.SEID))
	case "far":
		out = append(out, aU32(aFARID, uint32(key.ID)), aU64(aFARSEID, key.SEID))
	case "qer":
		out = append(out, aU32(aQERID, uint32(key.ID)), aU64(aQERSEID, key.SEID))
	case "urr":
		out = append(out, aU32(aURRID, uint32(key.ID)), aU64(aURRSEID, key.SEID))
	case "bar":
		out = append(out, aU8(aBARID, uint8(key.ID)), aU64(aBARSEID, key.SEID))
	}
	for _, a := range rule.Attrs {
		if key.Kind == "pdr" && (a.Type == aPDRUnix || a.Type == aPDRRole) {
			continue
		}
		out = append(out, a)
	}
	if key.Kind == "far" || key.Kind == "qer" {
		var ids []uint16
		for _, p := range k.rulesOf(key.SEID, "pdr") {
			refT := uint16(aPDRFARID)
			if key.Kind == "qer" {
				refT = aPDRQERID
			}
			for _, a := range findAll(p.Attrs, refT) {
				if a.u64() == key.ID {
					ids = append(ids, uint16(p.Key.ID))
					break
				}
			}
		}
		if len(ids) > 0 {
			b := make([]byte, 2*len(ids))
			for i, id := range ids {
				le.PutUint16(b[2*i:], id)
			}
			t := uint16(aFARRelPDR)
			if key.Kind == "qer" {
				t = aQERRelPDR
			}
			out = append(out, aBytes(t, b))
		}
	}
	return out
}

func (k *Kernel) rulesOf(seid uint64, kind string) []*KRule {
	var out []*KRule
	for key, r := range k.bySEID[seid] { // (index by SEID: the scan over all rules was quadratic in the many-sessions runs)
		if kind == "" || key.Kind == kind {
			out = append(out, r)
		}
	}
	sort.Slice(out, func(i, j int) bool {
		if out[i].Key.Kind != out[j].Key.Kind {
			return out[i].Key.Kind < out[j].Key.Kind
		}
		return out[i].Key.ID < out[j].Key.ID
	})
	return out
}

func (k *Kernel) allKeys() []RuleKey {
	keys := make([]RuleKey, 0, len(k.rules))
	for key := range k.rules {
		keys = append(keys, key)
	}
	sort.Slice(keys, func(i, j int) bool {
		a, b := keys[i], keys[j]
		if a.SEID != b.SEID {
			return a.SEID < b.SEID
		}
		if a.Kind != b.Kind {
			return a.Kind < b.Kind
		}
		return a.ID < b.ID
	})
	return keys
}

// projection renders everything the kernel holds under one SEID (C05 / C08 oracles).
type projMemo struct {
	ver uint64
	s   string
}

func (k *Kernel) projection(seid uint64) string {
	if m, ok := k.projMemo[seid]; ok && m.ver == k.ver[seid] {
		return m.s
	}
	var s string
	for _, r := range k.rulesOf(seid, "") {
		s += r.Key.String() + "{" + canonAttrs(r.Attrs) + "}\n"
	}
	k.projMemo[seid] = projMemo{k.ver[seid], s}
	return s
}

func (k *Kernel) makeReport(key RuleKey, trigger uint32, via string) *KReport {
	s := k.sim
	n := k.repCount[key]
	k.repCount[key] = n + 1
	h := func(tag string) uint64 { return s.hash("rep", key.SEID, key.ID, uint64(n), hashStr(tag)) }
	big := func(tag string) uint64 {
		v := h(tag)
		switch v % 8 {
		case 0:
			return v // full 64-bit range
		case 1:
			return ^uint64(0) - v%3
		case 2:
			return 1<<32 + v%5 - 2
		default:
			return v % 1000000
		}
	}
	_, known := k.rules[key]
	rep := &KReport{
		N: len(k.reports) + 1, Step: s.curStep(), SEID: key.SEID, URRID: uint32(key.ID), Trigger: trigger, Via: via, Known: known,
		Start: time.Unix(int64(86400*366+h("st")%(64*365*86400)), int64(h("stn")%1e9)),
		Vol:   [6]uint64{big("t"), big("u"), big("d"), big("tp"), big("up"), big("dp")},
	}
	rep.End = rep.Start.Add(time.Duration(h("dur")%100000) * time.Second)
	switch h("durk") % 12 {
	case 0:
		// an empty measurement interval: the event fell in the instant the interval began
		rep.End = rep.Start
	case 1:
		rep.End = rep.Start.Add(time.Duration(1 + h("dur")%999)) // below the second the wire format carries
	}
	k.reports = append(k.reports, rep)
	return rep
}

func (r *KReport) attr() Attr {
	return aNest(aUR,
		aU32(aURURRID, r.URRID),
		aU32(aURTrigger, r.Trigger),
		aNest(aURVolMeas,
			aU64(aVMTotal, r.Vol[0]), aU64(aVMUL, r.Vol[1]), aU64(aVMDL, r.Vol[2]),
			aU64(aVMTotalPkt, r.Vol[3]), aU64(aVMULPkt, r.Vol[4]), aU64(aVMDLPkt, r.Vol[5])),
		aU64(aURStart, uint64(r.Start.UnixNano())),
		aU64(aUREnd, uint64(r.End.UnixNano())),
		aU64(aURSEID, r.SEID),
	)
}

// emitReports sends one REPORT multicast carrying the given (seid, urr, cause) triples.
func (k *Kernel) emitReports(items []RuleKey, causes []uint32) []*KReport {
	c := k.bsConn()
	var reps []*KReport
	var urs []Attr
	for i, key := range items {
		rep := k.makeReport(key, causes[i], "mcast")
		reps = append(reps, rep)
		urs = append(urs, rep.attr())
	}
	if c == nil {
		return reps
	}
	c.Deliver(nlmsg(gtp5gFamilyID, 0, 0, 0, genlBody(cmdGetReport, 0, []Attr{aNest(aReport, urs...)})))
	return reps
}

// emitBuffer sends one BUFFER multicast (a packet handed up for buffering).
func (k *Kernel) emitBuffer(seid uint64, pdrid uint16, action uint16, pkt []byte) {
	c := k.bsConn()
	if c == nil {
		return
	}
	c.Deliver(nlmsg(gtp5gFamilyID, 0, 0, 0, genlBody(cmdBufferGTPU, 0, []Attr{
		aNest(aBuffer, aU16(aBufferID, pdrid), aU16(aBufferActon, action), aU64(aBufferSEID, seid), aBytes(aBufferPkt, pkt)),
	})))
}
