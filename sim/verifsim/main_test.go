//go:build verif

//go:debug asynctimerchan=0

package verifsim

import (
	"crypto/sha256"
	"encoding/json"
	"flag"
	"fmt"
	"os"
	"runtime"
	"runtime/debug"
	"strings"
	"sync/atomic"
	"testing"
	"time"
)

var (
	flagSeed    = flag.Uint64("sim.seed", 1, "first seed")
	flagCount   = flag.Int("sim.count", 1, "number of consecutive seeds")
	flagProfile = flag.String("sim.profile", "C01", "property profile")
	flagReplay  = flag.String("sim.replay", "", "replay file")
	flagVerbose = flag.Bool("sim.v", false, "keep the full trace and the action list")
	flagDry     = flag.Bool("sim.dry", false, "unused")
	flagSample  = flag.Uint64("sim.sample", 50, "every n-th run carries a written-out sample")
)

type replayFile struct {
	Property  string    `json:"property"`
	Signature string    `json:"signature"`
	Config    RunConfig `json:"config"`
	Actions   []Action  `json:"actions"`
}

// Sample is one explored case written out for the evidence file.
type Sample struct {
	Seed    uint64   `json:"seed"`
	Config  string   `json:"config"`
	Actions []string `json:"actions"`
}

func actionsHash(as []Action) string {
	b, _ := json.Marshal(as)
	h := sha256.Sum256(b)
	return fmt.Sprintf("%x", h[:8])
}

func finish(res *RunResult, verbose bool, sample bool) {
	res.ActionsHash = actionsHash(res.Actions)
	if res.Config.Startup != nil {
		// a start-up simulation has no action list: its case is its plan
		b, _ := json.Marshal(res.Config.Startup)
		h := sha256.Sum256(b)
		res.ActionsHash = fmt.Sprintf("%x", h[:8])
		res.States = []string{res.ActionsHash}
	}
	if sample {
		sm := &Sample{Seed: res.Config.Seed}
		cb, _ := json.Marshal(res.Config)
		sm.Config = string(cb)
		for i, a := range res.Actions {
			if i >= 40 {
				sm.Actions = append(sm.Actions, fmt.Sprintf("... %d more", len(res.Actions)-i))
				break
			}
			ab, _ := json.Marshal(a)
			s := string(ab)
			if len(s) > 300 {
				s = s[:300] + "…"
			}
			sm.Actions = append(sm.Actions, s)
		}
		res.Sample = sm
	}
	if !verbose && res.Violation == nil && res.Harness == "" {
		res.Actions = nil
	}
}

// spinWatchdog: what a quiescence-based simulator cannot see by itself is a goroutine that
// never blocks. If no quiescence has been reached for spinSecs of REAL time although a run is
// in progress, and two stack dumps five seconds apart show the same goroutine on the CPU
// inside go-upf (not inside the simulator or its accessors), the process reports it the way a
// crash is reported - "panic: no progress ..." and that goroutine's stack on stderr, exit
// status 2 - and the orchestrator attributes it to the run in flight, replays and reports
// it like any other crash. Anything else that stalls (the harness itself) is left to the
// orchestrator's own watchdog, which calls it harness trouble.
var runActive atomic.Bool

var flagSpinSecs = flag.Int("sim.spinsecs", 0, "real seconds without quiescence before a CPU-bound go-upf goroutine is reported (0: 60, 150 under the race detector)")

func busyUPFGoroutines() map[string]string {
	buf := make([]byte, 8<<20)
	buf = buf[:runtime.Stack(buf, true)]
	out := map[string]string{}
	for _, blk := range strings.Split(string(buf), "\n\n") {
		lines := strings.Split(blk, "\n")
		if len(lines) < 2 || !strings.HasPrefix(lines[0], "goroutine ") {
			continue
		}
		hdr := lines[0]
		i := strings.Index(hdr, "[")
		if i < 0 || !(strings.HasPrefix(hdr[i+1:], "running") || strings.HasPrefix(hdr[i+1:], "runnable")) {
			continue
		}
		// the innermost frame that belongs to the go-upf module decides
		for _, l := range lines[1:] {
			if strings.HasPrefix(l, "\t") || !strings.Contains(l, "free5gc/go-upf/") {
				continue
			}
			if strings.Contains(l, "/verifsim.") || strings.Contains(l, "/simhook.") || strings.Contains(l, "Verif") {
				break
			}
			out[strings.Fields(hdr)[1]] = blk
			break
		}
	}
	return out
}

func spinWatchdog() {
	limit := *flagSpinSecs
	if limit == 0 {
		limit = 60
		if raceBuild {
			limit = 150
		}
	}
	last, since := int64(-1), time.Now()
	for {
		time.Sleep(2 * time.Second)
		q := quiescences.Load()
		if !runActive.Load() || q != last {
			last, since = q, time.Now()
			continue
		}
		if time.Since(since) < time.Duration(limit)*time.Second {
			continue
		}
		a := busyUPFGoroutines()
		time.Sleep(5 * time.Second)
		b := busyUPFGoroutines()
		if quiescences.Load() != last {
			continue
		}
		for id, blk := range b {
			if _, ok := a[id]; ok {
				fmt.Fprintf(os.Stderr, "panic: no progress: a go-upf goroutine has been on the CPU for tens of seconds of real time without the simulation reaching quiescence (unbounded computation?)\n\n%s\n", blk)
				os.Exit(2)
			}
		}
		since = time.Now() // not go-upf: the orchestrator's watchdog will deal with it
	}
}

func TestSim(t *testing.T) {
	go spinWatchdog()
	runActive.Store(true)
	defer runActive.Store(false)
	// runaway recursion in go-upf ends the process at 64 MB of stack instead of 1 GB:
	// same fatal error, found in a fraction of a second and without 16 workers taking a
	// gigabyte each
	debug.SetMaxStack(64 << 20)
	emit := func(r *RunResult) {
		b, _ := json.Marshal(r)
		fmt.Println(string(b))
	}
	warmUp := func(profile string) {
		warm := *flagWarm
		if warm < 0 {
			warm = 0
			if raceBuild && profile != "C20" {
				warm = 1
			}
		}
		for i := 0; i < warm; i++ {
			// A discarded warm-up run. Found by experiment (DESIGN.md §11): the race detector
			// does not report a producer-versus-event-loop race in the FIRST simulation of a
			// process but does in every later one, so a replay (one run per process) would not
			// reproduce what a worker (many runs per process) found.
			Run(t, profileConfig(profile, uint64(900000000+i)), nil, false)
		}
	}
	if *flagReplay != "" {
		b, err := os.ReadFile(*flagReplay)
		if err != nil {
			t.Fatal(err)
		}
		var rf replayFile
		if err := json.Unmarshal(b, &rf); err != nil {
			t.Fatal(err)
		}
		warmUp(rf.Config.Profile)
		fmt.Printf("BEGIN %d\n", rf.Config.Seed)
		acts := rf.Actions
		if acts == nil {
			acts = []Action{}
		}
		res := Run(t, rf.Config, acts, true)
		finish(res, true, false)
		emit(res)
		fmt.Printf("END %d\n", rf.Config.Seed)
		return
	}
	warmUp(*flagProfile)
	for i := 0; i < *flagCount; i++ {
		seed := *flagSeed + uint64(i)
		fmt.Printf("BEGIN %d\n", seed)
		cfg := profileConfig(*flagProfile, seed)
		if *flagAllOracles {
			cfg.Oracles = nil
		}
		res := Run(t, cfg, nil, *flagVerbose)
		finish(res, *flagVerbose, seed%*flagSample == 0)
		emit(res)
		fmt.Printf("END %d\n", seed)
	}
}

var flagWarm = flag.Int("sim.warm", -1, "discarded warm-up runs before the first real one")

var flagAllOracles = flag.Bool("sim.all", false, "enable every oracle regardless of the profile (triage aid)")
