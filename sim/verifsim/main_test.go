//go:build verif

//go:debug asynctimerchan=0

package verifsim

import (
	"encoding/json"
	"flag"
	"fmt"
	"os"
	"testing"
)

var (
	flagSeed    = flag.Uint64("sim.seed", 1, "first seed")
	flagCount   = flag.Int("sim.count", 1, "number of consecutive seeds")
	flagProfile = flag.String("sim.profile", "C01", "property profile")
	flagReplay  = flag.String("sim.replay", "", "replay file")
	flagOut     = flag.String("sim.out", "", "write one JSON result per line to this file")
	flagVerbose = flag.Bool("sim.v", false, "keep the full trace")
)

func TestSim(t *testing.T) {
	var out *os.File
	if *flagOut != "" {
		f, err := os.Create(*flagOut)
		if err != nil {
			t.Fatal(err)
		}
		defer f.Close()
		out = f
	}
	emit := func(r *RunResult) {
		b, _ := json.Marshal(r)
		if out != nil {
			out.Write(append(b, '\n'))
		} else {
			fmt.Println(string(b))
		}
	}
	for i := 0; i < *flagCount; i++ {
		seed := *flagSeed + uint64(i)
		fmt.Printf("BEGIN %d\n", seed)
		cfg := profileConfig(*flagProfile, seed)
		res := Run(t, cfg, nil, *flagVerbose)
		if !*flagVerbose && res.Violation == nil && res.Harness == "" {
			res.Actions = nil
		}
		emit(res)
		fmt.Printf("END %d\n", seed)
	}
}

func profileConfig(p string, seed uint64) RunConfig {
	return RunConfig{Seed: seed, Profile: p, Driver: "gtp5g", RetransMs: 1009, MaxRetrans: 2, NSMF: 2, NSlots: 3, Steps: 40,
		Interpose: true, AutoFwd: true, AutoAnswer: true, MapOrder: "seeded", LogLevel: "error"}
}
