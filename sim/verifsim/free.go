//go:build verif

package verifsim

// Free-running mode (C17 only; DESIGN.md §9 "free-running segments").
//
// The lock-step scheduler is what makes runs replay exactly, but it is also a giant
// synchroniser: synctest.Wait is an acquire of everything every goroutine did, so what the
// scheduler does next is ordered after all of it, and the race detector only ever sees the
// goroutines that ran between two waits as concurrent. In this mode the root goroutine
// plans everything up front and then steps aside:
//
//   - every SMF is an actor goroutine with a script of (instant, request) and an inbox; it
//     learns SEIDs from the responses it receives and answers the UPF's requests itself;
//   - kernel notifications are produced by goroutines of their own at planned instants
//     and travel the real path (netlink mux goroutine -> buffnetlink -> NotifySessReport);
//   - the simulated kernel answers a netlink request on the caller's goroutine, after the
//     configured latency, like a system call;
//   - Stop(); Close() is issued by a shutdown goroutine at a planned instant, whatever is
//     in flight, as pkg/app does on SIGTERM.
//
// The root goroutine waits for the end on channels only (no synctest.Wait while anything
// runs). The seams (map order, select choice, resolver, knobs) are lock-free pure
// functions, and nothing go-upf's goroutines call in the harness takes a lock shared with
// another go-upf goroutine except the simulated kernel's (a real kernel orders its callers
// too). The planned instants are distinct odd nanoseconds; who runs first among goroutines
// that are runnable together is left to the Go runtime here, so the event log of a
// free-running execution is not a function of the seed: verdicts are (crash, race,
// shutdown not terminating), and vcheck re-runs a replay file a few times before judging.

import (
	"encoding/hex"
	"fmt"
	"net"
	"sort"
	"strings"
	"sync"
	"time"

	"github.com/free5gc/go-upf/internal/report"
)

type freeSend struct {
	at     int64
	intent *MsgIntent
	raw    []byte
	from   string
	dup    bool
}

type freeProd struct {
	at int64
	a  Action
}

func (s *Sim) freeLog(f string, a ...any) {
	// root goroutine only
	line := fmt.Sprintf(f, a...)
	s.trace = append(s.trace, fmt.Sprintf("[free %v] %s", s.since(), line))
}

// runFree executes an explicit action list in free-running mode.
func (s *Sim) runFree(actions []Action) {
	defer func() {
		if p := recover(); p != nil {
			if _, ok := p.(stopRun); !ok {
				panic(p)
			}
		}
	}()
	s.free = true
	s.kern.auto = true
	s.boot()
	s.setupSMFs()
	for _, m := range s.smfs {
		m.inbox = make(chan []byte, 8192)
		s.byAddr[m.Rep.String()] = m
		s.byAddr[m.Src.String()] = m
	}
	s.n4.route = func(dst net.Addr, b []byte) {
		m := s.byAddr[dst.String()]
		if m == nil {
			return
		}
		select {
		case m.inbox <- append([]byte(nil), b...):
		default: // a full inbox is a lossy network
		}
	}

	// ---- plan ---------------------------------------------------------------------------
	lat := int64(s.cfg.KernLatency) * int64(time.Millisecond)
	if lat <= 0 {
		lat = []int64{200_000, 1_000_000, 3_000_000}[s.hash("freelat")%3]
	}
	s.kern.autoLat = time.Duration(lat) // set before any request can be in flight
	gaps := []int64{0, 0, 100_000, lat / 2, lat, 3 * lat, 10 * lat, 100_000_000, 400_000_000}
	t := int64(s.since()) + 1_000_001
	if t%2 == 0 {
		t++
	}
	scripts := make([][]freeSend, len(s.smfs))
	var prods []freeProd
	stopAt := int64(-1)
	budget := 100
	for i, a := range actions {
		switch a.Op {
		case "send":
			if a.Msg != nil && a.Net != "drop" {
				k := s.smf(a.SMF).Idx
				scripts[k] = append(scripts[k], freeSend{at: t, intent: a.Msg, from: a.From})
			}
		case "dup":
			k := s.smf(a.SMF).Idx
			scripts[k] = append(scripts[k], freeSend{at: t, dup: true})
		case "raw":
			if b, err := hexBytes(a.Raw); err == nil {
				k := s.smf(a.SMF).Idx
				scripts[k] = append(scripts[k], freeSend{at: t, raw: b, from: a.From})
			}
		case "krep", "armburst", "kbuf", "detach":
			// all notifications of one execution together stay below the report queue's
			// capacity (128): a full queue is C18's known wedge D9b, not a C17 verdict
			n := 1
			if a.KBuf != nil && a.KBuf.Count > 1 {
				n = a.KBuf.Count
				if n > 40 {
					n = 40
				}
			}
			if budget-n < 0 {
				break
			}
			budget -= n
			prods = append(prods, freeProd{at: t, a: a})
		case "adv":
			ms := a.Ms
			if ms > 4000 {
				ms = 4000
			}
			t += ms * int64(time.Millisecond)
		case "stop1", "stop2", "armstop":
			if stopAt < 0 {
				stopAt = t
			}
		}
		g := gaps[int(s.hash("freegap", uint64(i))%uint64(len(gaps)))]
		t += 2 + g - g%2
	}
	if stopAt < 0 {
		stopAt = t + 2
	}
	end := t
	if stopAt > end {
		end = stopAt
	}
	s.probeM["free.runs"]++
	s.probeM["free.sends"] += func() int {
		n := 0
		for _, sc := range scripts {
			n += len(sc)
		}
		return n
	}()
	s.probeM["free.producers"] += len(prods)
	if stopAt < t {
		s.probeM["free.stop.midway"]++
	}
	s.freeLog("plan: %d actions, %d producers, stop at %v, end %v, kernel latency %v", len(actions), len(prods), time.Duration(stopAt), time.Duration(end), time.Duration(lat))

	// ---- go ------------------------------------------------------------------------------
	s.freeDone = make(chan struct{})
	var actors sync.WaitGroup
	for k, m := range s.smfs {
		actors.Add(1)
		go s.freeActor(m, scripts[k], &actors)
	}
	var pw sync.WaitGroup
	for _, p := range prods {
		pw.Add(1)
		go func(p freeProd) {
			defer pw.Done()
			s.sleepUntil(p.at)
			s.freeProduce(p.a)
		}(p)
	}
	stopDone := make(chan struct{})
	closeDone := make(chan struct{})
	go func() {
		s.sleepUntil(stopAt)
		s.srv.Stop()
		s.drv.Close()
		close(closeDone)
		s.wg.Wait()
		close(stopDone)
	}()
	s.stopped1, s.stopped2 = true, true

	// the root goroutine waits on channels only
	pdone := make(chan struct{})
	go func() { pw.Wait(); close(pdone) }()
	limit := time.Duration(end-int64(s.since())) + 20*time.Minute
	tm := time.NewTimer(limit)
	stuck := ""
	select {
	case <-stopDone:
	case <-tm.C:
		select {
		case <-closeDone:
			stuck = "goroutines still running after Stop and Close"
		default:
			stuck = "Stop(); Close() does not return"
		}
	}
	tm.Stop()
	if stuck == "" {
		select {
		case <-pdone:
		case <-time.After(20 * time.Minute):
			stuck = "a report producer is still blocked after Stop and Close returned"
		}
	}
	close(s.freeDone)
	if stuck == "" {
		actors.Wait()
	}
	s.detWG.Wait()
	// compose the trace: kernel log and datagrams, by time
	if s.verbose || stuck != "" || s.upfDead {
		s.kern.amu.Lock()
		lines := append([]string(nil), s.kern.flog...)
		s.kern.amu.Unlock()
		for _, o := range s.n4.outSince(0) {
			lines = append(lines, fmt.Sprintf("[free %v] n4 out dst=%s % x", o.At, o.Dst, clip(o.B, 60)))
		}
		sort.SliceStable(lines, func(i, j int) bool { return freeTime(lines[i]) < freeTime(lines[j]) })
		s.trace = append(s.trace, lines...)
	}
	s.res.Steps = len(actions)
	if s.upfDead {
		s.emu.Lock()
		msg := strings.Join(s.exitMsgs, "\n---\n")
		s.emu.Unlock()
		if len(msg) > 3000 {
			msg = msg[:3000]
		}
		s.violate("C17", "upf.alive", "crash:"+s.crashSite(), "UPF exit hook called during a free-running execution\n%s", msg)
	}
	if stuck != "" {
		s.shutdownStuck(stuck + " (free-running execution)")
	}
}

func clip(b []byte, n int) []byte {
	if len(b) > n {
		return b[:n]
	}
	return b
}

func freeTime(l string) time.Duration {
	// "[free 1.5s] ..."
	i := strings.Index(l, "]")
	if !strings.HasPrefix(l, "[free ") || i < 0 {
		return 0
	}
	d, _ := time.ParseDuration(l[6:i])
	return d
}

func hexBytes(h string) ([]byte, error) { return hex.DecodeString(h) }

func (s *Sim) sleepUntil(at int64) {
	d := at - int64(s.since())
	if d > 0 {
		time.Sleep(time.Duration(d))
	}
}

// freeActor is one SMF: it sends its script at the planned instants, learns SEIDs from
// Establishment Responses and answers the UPF's Session Report Requests.
func (s *Sim) freeActor(m *SMF, script []freeSend, wg *sync.WaitGroup) {
	defer wg.Done()
	pendingEst := map[uint32]int{} // sequence number -> slot
	var last []byte
	var lastFrom net.Addr
	idx := 0
	for {
		var tc <-chan time.Time
		var tm *time.Timer
		if idx < len(script) {
			d := script[idx].at - int64(s.since())
			if d < 0 {
				d = 0
			}
			tm = time.NewTimer(time.Duration(d))
			tc = tm.C
		}
		select {
		case b := <-m.inbox:
			if tm != nil {
				tm.Stop()
			}
			s.freeReceive(m, b, pendingEst)
		case <-tc:
			e := script[idx]
			idx++
			from := net.Addr(m.Src)
			if e.from != "" {
				from = udpAddr(e.from)
			}
			switch {
			case e.dup:
				if last != nil {
					s.n4.injectLossy(last, lastFrom)
				}
			case e.raw != nil:
				s.n4.injectLossy(e.raw, from)
			default:
				m.mu.Lock()
				b := s.build(m, e.intent)
				m.mu.Unlock()
				if e.intent.T == "est" {
					pendingEst[e.intent.Seq&0xffffff] = e.intent.Slot
				}
				last, lastFrom = b, from
				s.n4.injectLossy(b, from)
			}
		case <-s.freeDone:
			if tm != nil {
				tm.Stop()
			}
			return
		}
	}
}

func (s *Sim) freeReceive(m *SMF, b []byte, pendingEst map[uint32]int) {
	pm, err := parsePMsg(b)
	if err != nil {
		return
	}
	switch {
	case pm.Type == mtSessEstRsp:
		slot, ok := pendingEst[pm.Seq]
		if !ok {
			return
		}
		if f, ok := pm.find(ieFSEID); ok && len(f.V) >= 9 {
			m.mu.Lock()
			sl := m.slot(slot)
			sl.CP, sl.UP, sl.Known = pm.SEID, be.Uint64(f.V[1:9]), true
			m.mu.Unlock()
		}
	case pm.Type == mtSessReportReq:
		// answer as an SMF would; a few stay unanswered (retransmissions, time-outs) and a
		// few are answered "no such session"
		h := s.hash("freeans", uint64(m.Idx), uint64(pm.Seq))
		if !s.cfg.AutoAnswer && h%3 == 0 {
			return
		}
		rsp := &PMsg{Type: mtSessReportRsp, HasSEID: true, Seq: pm.Seq, SEID: 0x7ffd0000}
		m.mu.Lock()
		for _, sl := range m.Slots {
			if sl.Known && sl.CP == pm.SEID {
				rsp.SEID = sl.UP
			}
		}
		m.mu.Unlock()
		if h%11 == 0 {
			rsp.SEID = 0
		}
		rsp.IEs = append(rsp.IEs, tlv(ieCause, causeAccepted))
		s.n4.injectLossy(rsp.Marshal(), m.Rep)
	}
}

// freeProduce runs on a producer goroutine of its own.
func (s *Sim) freeProduce(a Action) {
	k := s.kern
	switch a.Op {
	case "krep", "armburst":
		var keys []RuleKey
		var causes []uint32
		for _, it := range a.KRep {
			seid := s.freeSEID(it.SMF, it.Slot, it.SEID)
			keys = append(keys, RuleKey{Kind: "urr", SEID: seid, ID: uint64(it.URR)})
			causes = append(causes, it.Cause)
		}
		k.amu.Lock()
		reps := k.emitReports(keys, causes)
		known := 0
		for _, r := range reps {
			if r.Known {
				known++
			}
		}
		k.flog = append(k.flog, fmt.Sprintf("[free %v] producer: usage report multicast, %d report(s) (%d for installed URRs) %v", s.since(), len(reps), known, keys))
		k.amu.Unlock()
	case "kbuf":
		if a.KBuf == nil {
			return
		}
		seid := s.freeSEID(a.KBuf.SMF, a.KBuf.Slot, a.KBuf.SEID)
		n := a.KBuf.Count
		if n < 1 {
			n = 1
		}
		if n > 40 {
			n = 40 // the report queue must not fill up: that wedge is C18's known finding D9b
		}
		for i := 0; i < n; i++ {
			pkt := makePayload(uint64(1000+i), a.KBuf.Len)
			k.amu.Lock()
			k.emitBuffer(seid, a.KBuf.PDR, a.KBuf.Action, pkt)
			k.flog = append(k.flog, fmt.Sprintf("[free %v] producer: buffer multicast seid=%#x pdr=%d action=%#x", s.since(), seid, a.KBuf.PDR, a.KBuf.Action))
			k.amu.Unlock()
		}
	case "detach":
		if a.KBuf == nil {
			return
		}
		seid := s.freeSEID(a.KBuf.SMF, a.KBuf.Slot, a.KBuf.SEID)
		pkt := makePayload(7, a.KBuf.Len)
		s.srv.NotifySessReport(report.SessReport{SEID: seid, Reports: []report.Report{
			report.DLDReport{PDRID: a.KBuf.PDR, Action: a.KBuf.Action, BufPkt: pkt}}})
	}
}

func (s *Sim) freeSEID(smf, slot int, raw uint64) uint64 {
	if slot < 0 {
		return raw
	}
	m := s.smf(smf)
	m.mu.Lock()
	defer m.mu.Unlock()
	sl := m.slot(slot)
	if !sl.Known {
		return 0x7ffe0000 + uint64(slot)
	}
	return sl.UP
}
