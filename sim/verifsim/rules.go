//go:build verif

package verifsim

// Rule intents: what a simulated SMF wants installed. From one intent two things are
// derived independently of go-upf: the PFCP grouped IE put on the wire, and the netlink
// attribute tree a faithful translation must hand to gtp5g (C02 / C03 oracle).

import (
	"fmt"
	"net"
	"strings"
)

type Net4 struct {
	Kind string  `json:"k"` // any assigned host cidr
	IP   [4]byte `json:"ip,omitempty"`
	Bits int     `json:"bits,omitempty"`
}

type FlowDescIntent struct {
	Out      bool        `json:"out,omitempty"`
	Proto    int         `json:"proto"` // -1 = "ip"
	Src      Net4        `json:"src"`
	Dst      Net4        `json:"dst"`
	SrcPorts [][2]uint16 `json:"sp,omitempty"` // lo==hi: single port
	DstPorts [][2]uint16 `json:"dp,omitempty"`
	Spaces   int         `json:"spaces,omitempty"` // extra blanks between tokens
}

type SDFIntent struct {
	FD  *FlowDescIntent `json:"fd,omitempty"`
	TTC bool            `json:"ttc,omitempty"`
	SPI bool            `json:"spi,omitempty"`
	FL  bool            `json:"fl,omitempty"`
	BID *uint32         `json:"bid,omitempty"`
}

type OHCIntent struct {
	Desc uint16  `json:"desc"`
	TEID uint32  `json:"teid,omitempty"`
	IP   [4]byte `json:"ip,omitempty"`
	Port uint16  `json:"port,omitempty"`
}

type FPIntent struct {
	DestIf *uint8     `json:"dif,omitempty"`
	NetIns string     `json:"ni,omitempty"`
	OHC    *OHCIntent `json:"ohc,omitempty"`
	Policy *string    `json:"pol,omitempty"`
	SMReq  *uint8     `json:"smreq,omitempty"`
}

type VolIntent struct {
	Flags uint8  `json:"f"`
	Tot   uint64 `json:"t,omitempty"`
	UL    uint64 `json:"u,omitempty"`
	DL    uint64 `json:"d,omitempty"`
}

// RuleIntent is the union of the five rule kinds.
type RuleIntent struct {
	Kind  string `json:"kind"` // pdr far qer urr bar
	ID    uint32 `json:"id"`
	Order []int  `json:"order,omitempty"` // permutation applied to the child IEs

	// PDR
	Prec    *uint32     `json:"prec,omitempty"`
	SrcIf   *uint8      `json:"srcif,omitempty"`
	FTEID   *uint32     `json:"fteid,omitempty"`
	FTEIDIP [4]byte     `json:"fteidip,omitempty"`
	FTEID6  bool        `json:"fteid6,omitempty"` // dual-stack F-TEID: V4 and V6 flags, both addresses
	UEIP    *[4]byte    `json:"ueip,omitempty"`
	NetIns  string      `json:"ni,omitempty"`
	SDFs    []SDFIntent `json:"sdf,omitempty"`
	PDIOrd  []int       `json:"pdiord,omitempty"`
	NoPDI   bool        `json:"nopdi,omitempty"`
	OHR     *uint8      `json:"ohr,omitempty"`
	FARID   *uint32     `json:"far,omitempty"`
	QERIDs  []uint32    `json:"qers,omitempty"`
	URRIDs  []uint32    `json:"urrs,omitempty"`

	// FAR
	Action    *uint16   `json:"act,omitempty"`
	ActionLen int       `json:"actlen,omitempty"` // 1 or 2 octets on the wire
	FP        *FPIntent `json:"fp,omitempty"`
	BARID     *uint8    `json:"bar,omitempty"`

	// QER
	Gate   *uint8     `json:"gate,omitempty"`
	MBR    *[2]uint64 `json:"mbr,omitempty"` // ul, dl (40 bit)
	GBR    *[2]uint64 `json:"gbr,omitempty"`
	QFI    *uint8     `json:"qfi,omitempty"`
	RQI    *uint8     `json:"rqi,omitempty"`
	PPI    *uint8     `json:"ppi,omitempty"`
	CorrID *uint32    `json:"corr,omitempty"`

	// URR
	Method  *uint8     `json:"meth,omitempty"`
	Trigger *uint32    `json:"trig,omitempty"`
	TrigLen int        `json:"triglen,omitempty"` // 2 or 3 octets
	Period  *uint32    `json:"period,omitempty"`  // seconds
	MInfo   *uint8     `json:"minfo,omitempty"`
	Linked  []uint32   `json:"linked,omitempty"` // Linked URR ID IEs (go-upf ignores them)
	VolTh   *VolIntent `json:"volth,omitempty"`
	VolQu   *VolIntent `json:"volqu,omitempty"`

	// BAR
	Delay *uint8 `json:"delay,omitempty"` // in 50 ms units as on the wire
	Count *uint8 `json:"count,omitempty"`
}

type RuleRef struct {
	Kind string
	ID   uint32
}

func (r *RuleIntent) ref() RuleRef { return RuleRef{r.Kind, r.ID} }

func permute[T any](xs []T, ord []int) []T {
	if len(ord) != len(xs) {
		return xs
	}
	out := make([]T, 0, len(xs))
	seen := make([]bool, len(xs))
	for _, j := range ord {
		if j < 0 || j >= len(xs) || seen[j] {
			return xs
		}
		seen[j] = true
		out = append(out, xs[j])
	}
	return out
}

func (n Net4) text() string {
	switch n.Kind {
	case "any", "assigned":
		return n.Kind
	case "host":
		return net.IP(n.IP[:]).String()
	}
	return fmt.Sprintf("%s/%d", net.IP(n.IP[:]).String(), n.Bits)
}

// netMask: the network and mask the text denotes.
func (n Net4) netMask() ([]byte, []byte) {
	switch n.Kind {
	case "any", "assigned":
		return []byte{0, 0, 0, 0}, []byte{0, 0, 0, 0}
	case "host":
		return n.IP[:], []byte{255, 255, 255, 255}
	}
	m := net.CIDRMask(n.Bits, 32)
	ip := net.IP(n.IP[:]).Mask(m)
	return []byte(ip), []byte(m)
}

func portsText(ps [][2]uint16) string {
	var parts []string
	for _, p := range ps {
		if p[0] == p[1] {
			parts = append(parts, fmt.Sprint(p[0]))
		} else {
			parts = append(parts, fmt.Sprintf("%d-%d", p[0], p[1]))
		}
	}
	return strings.Join(parts, ",")
}

func (f *FlowDescIntent) text() string {
	sp := strings.Repeat(" ", 1+f.Spaces)
	toks := []string{"permit"}
	if f.Out {
		toks = append(toks, "out")
	} else {
		toks = append(toks, "in")
	}
	if f.Proto < 0 {
		toks = append(toks, "ip")
	} else {
		toks = append(toks, fmt.Sprint(f.Proto))
	}
	toks = append(toks, "from", f.Src.text())
	if len(f.SrcPorts) > 0 {
		toks = append(toks, portsText(f.SrcPorts))
	}
	toks = append(toks, "to", f.Dst.text())
	if len(f.DstPorts) > 0 {
		toks = append(toks, portsText(f.DstPorts))
	}
	return strings.Join(toks, sp)
}

func portsAttr(ps [][2]uint16) []byte {
	b := make([]byte, 4*len(ps))
	for i, p := range ps {
		le.PutUint32(b[4*i:], uint32(p[0])<<16|uint32(p[1]))
	}
	return b
}

// ---- PFCP side ---------------------------------------------------------------------

func (r *RuleIntent) idTLV() TLV {
	switch r.Kind {
	case "pdr":
		return TLV{T: iePDRID, V: u16b(uint16(r.ID))}
	case "far":
		return TLV{T: ieFARID, V: u32b(r.ID)}
	case "qer":
		return TLV{T: ieQERID, V: u32b(r.ID)}
	case "urr":
		return TLV{T: ieURRID, V: u32b(r.ID)}
	}
	return TLV{T: ieBARID, V: u8b(uint8(r.ID))}
}

func (s *SDFIntent) tlv() TLV {
	var flags byte
	var body []byte
	if s.FD != nil {
		flags |= 0x01
		t := s.FD.text()
		body = append(body, u16b(uint16(len(t)))...)
		body = append(body, t...)
	}
	if s.TTC {
		flags |= 0x02
		body = append(body, 0x11, 0x22)
	}
	if s.SPI {
		flags |= 0x04
		body = append(body, 1, 2, 3, 4)
	}
	if s.FL {
		flags |= 0x08
		body = append(body, 5, 6, 7)
	}
	if s.BID != nil {
		flags |= 0x10
		body = append(body, u32b(*s.BID)...)
	}
	return TLV{T: ieSDFFilter, V: append([]byte{flags, 0}, body...)}
}

func (o *OHCIntent) tlv() TLV {
	v := u16b(o.Desc)
	hi := byte(o.Desc >> 8)
	if hi&0x03 != 0 {
		v = append(v, u32b(o.TEID)...)
	}
	if hi&(0x01|0x04|0x10) != 0 {
		v = append(v, o.IP[:]...)
	}
	if hi&(0x02|0x08|0x20) != 0 {
		v = append(v, make([]byte, 16)...)
	}
	if hi&0x0c != 0 {
		v = append(v, u16b(o.Port)...)
	}
	return TLV{T: ieOuterHdrCreation, V: v}
}

func (o *OHCIntent) hasTEID() bool { return byte(o.Desc>>8)&0x03 != 0 }
func (o *OHCIntent) hasIPv4() bool { return byte(o.Desc>>8)&(0x01|0x04|0x10) != 0 }

func (f *FPIntent) kids() []TLV {
	var ks []TLV
	if f.DestIf != nil {
		ks = append(ks, tlv(ieDestInterface, *f.DestIf))
	}
	if f.NetIns != "" {
		ks = append(ks, TLV{T: ieNetworkInstance, V: []byte(f.NetIns)})
	}
	if f.OHC != nil {
		ks = append(ks, f.OHC.tlv())
	}
	if f.Policy != nil {
		ks = append(ks, TLV{T: ieForwardingPolicy, V: append([]byte{byte(len(*f.Policy))}, *f.Policy...)})
	}
	if f.SMReq != nil {
		ks = append(ks, tlv(iePFCPSMReqFlags, *f.SMReq))
	}
	return ks
}

func (v *VolIntent) body() []byte {
	b := []byte{v.Flags}
	if v.Flags&1 != 0 {
		b = append(b, u64b(v.Tot)...)
	}
	if v.Flags&2 != 0 {
		b = append(b, u64b(v.UL)...)
	}
	if v.Flags&4 != 0 {
		b = append(b, u64b(v.DL)...)
	}
	return b
}

type kid struct {
	t     TLV
	label string
}

func labelsOf(ks []kid) []string {
	out := make([]string, len(ks))
	for i, k := range ks {
		out[i] = k.label
	}
	return out
}

func tlvsOf(ks []kid) []TLV {
	out := make([]TLV, len(ks))
	for i, k := range ks {
		out[i] = k.t
	}
	return out
}

// orderOf returns the indexes i of labels "<prefix>:<i>" in the order they appear.
func orderOf(labels []string, prefix string, n int) []int {
	var out []int
	for _, l := range labels {
		var i int
		if _, err := fmt.Sscanf(l, prefix+":%d", &i); err == nil && strings.HasPrefix(l, prefix+":") {
			out = append(out, i)
		}
	}
	if len(out) != n {
		out = out[:0]
		for i := 0; i < n; i++ {
			out = append(out, i)
		}
	}
	return out
}

func (r *RuleIntent) pdiKids() []kid {
	var pdi []kid
	if r.SrcIf != nil {
		pdi = append(pdi, kid{tlv(ieSourceInterface, *r.SrcIf), "srcif"})
	}
	if r.FTEID != nil {
		v := append([]byte{0x01}, u32b(*r.FTEID)...)
		v = append(v, r.FTEIDIP[:]...)
		if r.FTEID6 {
			// TS 29.244 8.2.3: V4 | V6, the IPv4 address, then the IPv6 address
			v[0] = 0x03
			v = append(v, 0x20, 0x01, 0x0d, 0xb8, 0, 0, 0, 0, 0, 0, 0, 0, r.FTEIDIP[0], r.FTEIDIP[1], r.FTEIDIP[2], r.FTEIDIP[3])
		}
		pdi = append(pdi, kid{TLV{T: ieFTEID, V: v}, "fteid"})
	}
	if r.NetIns != "" {
		pdi = append(pdi, kid{TLV{T: ieNetworkInstance, V: []byte(r.NetIns)}, "ni"})
	}
	if r.UEIP != nil {
		pdi = append(pdi, kid{TLV{T: ieUEIPAddress, V: append([]byte{0x02}, r.UEIP[:]...)}, "ueip"})
	}
	for i := range r.SDFs {
		pdi = append(pdi, kid{r.SDFs[i].tlv(), fmt.Sprintf("sdf:%d", i)})
	}
	return permute(pdi, r.PDIOrd)
}

// kids returns the child IEs of the Create/Update grouped IE, id first, then
// permuted by Order (the id may move too: order independence is part of C02).
func (r *RuleIntent) kids(update bool) []kid {
	ks := []kid{{r.idTLV(), "id"}}
	add := func(t TLV, label string) { ks = append(ks, kid{t, label}) }
	switch r.Kind {
	case "pdr":
		if r.Prec != nil {
			add(TLV{T: iePrecedence, V: u32b(*r.Prec)}, "prec")
		}
		if !r.NoPDI {
			add(grp(iePDI, tlvsOf(r.pdiKids())...), "pdi")
		}
		if r.OHR != nil {
			add(tlv(ieOuterHdrRemoval, *r.OHR), "ohr")
		}
		if r.FARID != nil {
			add(TLV{T: ieFARID, V: u32b(*r.FARID)}, "far")
		}
		for i, q := range r.QERIDs {
			add(TLV{T: ieQERID, V: u32b(q)}, fmt.Sprintf("qer:%d", i))
		}
		for i, u := range r.URRIDs {
			add(TLV{T: ieURRID, V: u32b(u)}, fmt.Sprintf("urr:%d", i))
		}
	case "far":
		if r.Action != nil {
			if r.ActionLen == 2 {
				add(tlv(ieApplyAction, byte(*r.Action), byte(*r.Action>>8)), "act")
			} else {
				add(tlv(ieApplyAction, byte(*r.Action)), "act")
			}
		}
		if r.FP != nil {
			t := uint16(ieForwardingParams)
			if update {
				t = ieUpdFwdParams
			}
			add(grp(t, r.FP.kids()...), "fp")
		}
		if r.BARID != nil {
			add(tlv(ieBARID, *r.BARID), "bar")
		}
	case "qer":
		if r.CorrID != nil {
			add(TLV{T: ieQERCorrID, V: u32b(*r.CorrID)}, "corr")
		}
		if r.Gate != nil {
			add(tlv(ieGateStatus, *r.Gate), "gate")
		}
		if r.MBR != nil {
			add(TLV{T: ieMBR, V: append(u40b(r.MBR[0]), u40b(r.MBR[1])...)}, "mbr")
		}
		if r.GBR != nil {
			add(TLV{T: ieGBR, V: append(u40b(r.GBR[0]), u40b(r.GBR[1])...)}, "gbr")
		}
		if r.QFI != nil {
			add(tlv(ieQFI, *r.QFI), "qfi")
		}
		if r.RQI != nil {
			add(tlv(ieRQI, *r.RQI), "rqi")
		}
		if r.PPI != nil {
			add(tlv(iePagingPolicyInd, *r.PPI), "ppi")
		}
	case "urr":
		if r.Method != nil {
			add(tlv(ieMeasMethod, *r.Method), "meth")
		}
		if r.Trigger != nil {
			t := *r.Trigger
			if r.TrigLen == 3 {
				add(tlv(ieReportingTrig, byte(t), byte(t>>8), byte(t>>16)), "trig")
			} else {
				add(tlv(ieReportingTrig, byte(t), byte(t>>8)), "trig")
			}
		}
		if r.Period != nil {
			add(TLV{T: ieMeasPeriod, V: u32b(*r.Period)}, "period")
		}
		if r.MInfo != nil {
			add(tlv(ieMeasInfo, *r.MInfo), "minfo")
		}
		for i, l := range r.Linked {
			add(TLV{T: ieLinkedURRID, V: u32b(l)}, fmt.Sprintf("linked%d", i))
		}
		if r.VolTh != nil {
			add(TLV{T: ieVolumeThreshold, V: r.VolTh.body()}, "volth")
		}
		if r.VolQu != nil {
			add(TLV{T: ieVolumeQuota, V: r.VolQu.body()}, "volqu")
		}
	case "bar":
		if r.Delay != nil {
			add(tlv(ieDLDNDelay, *r.Delay), "delay")
		}
		if r.Count != nil {
			add(tlv(ieSuggBufPktCount, *r.Count), "count")
		}
	}
	return permute(ks, r.Order)
}

func (r *RuleIntent) children(update bool) []TLV { return tlvsOf(r.kids(update)) }

var createIE = map[string]uint16{"pdr": ieCreatePDR, "far": ieCreateFAR, "qer": ieCreateQER, "urr": ieCreateURR, "bar": ieCreateBAR}
var updateIE = map[string]uint16{"pdr": ieUpdatePDR, "far": ieUpdateFAR, "qer": ieUpdateQER, "urr": ieUpdateURR, "bar": ieUpdateBARSMR}
var removeIE = map[string]uint16{"pdr": ieRemovePDR, "far": ieRemoveFAR, "qer": ieRemoveQER, "urr": ieRemoveURR, "bar": ieRemoveBAR}

func (r *RuleIntent) createTLV() TLV { return grp(createIE[r.Kind], r.children(false)...) }
func (r *RuleIntent) updateTLV() TLV { return grp(updateIE[r.Kind], r.children(true)...) }
func (r *RuleIntent) removeTLV() TLV { return grp(removeIE[r.Kind], r.idTLV()) }

// ---- netlink side: what a faithful translation hands to gtp5g ------------------------

func (r *RuleIntent) perio() bool { return r.Trigger != nil && *r.Trigger&1 != 0 }

func (s *SDFIntent) expectAttr(uplink bool) Attr {
	var ks []Attr
	if s.FD != nil {
		f := s.FD
		src, dst := f.Src, f.Dst
		sp, dp := f.SrcPorts, f.DstPorts
		if uplink {
			src, dst = dst, src
			sp, dp = dp, sp
		}
		dir := uint8(1)
		if f.Out {
			dir = 2
		}
		proto := uint8(0xff)
		if f.Proto >= 0 {
			proto = uint8(f.Proto)
		}
		sip, sm := src.netMask()
		dip, dm := dst.netMask()
		ks = append(ks, aNest(aSDFFD,
			aU8(aFDAction, 1), aU8(aFDDir, dir), aU8(aFDProto, proto),
			aBytes(aFDSrcIP, sip), aBytes(aFDSrcMask, sm), aBytes(aFDDstIP, dip), aBytes(aFDDstMask, dm),
			aBytes(aFDSrcPort, portsAttr(sp)), aBytes(aFDDstPort, portsAttr(dp))))
	}
	if s.TTC {
		ks = append(ks, Attr{Type: aSDFTTC, Data: nil}) // value not specified by the property: presence only
	}
	if s.SPI {
		ks = append(ks, Attr{Type: aSDFSPI, Data: nil})
	}
	if s.FL {
		ks = append(ks, Attr{Type: aSDFFL, Data: nil})
	}
	if s.BID != nil {
		ks = append(ks, aU32(aSDFBID, *s.BID))
	}
	return aNest(aPDISDF, ks...)
}

func rateAttr(t uint16, r *[2]uint64) Attr {
	return aNest(t,
		aU32(aRateULHigh, uint32(r[0]>>8)), aU8(aRateULLow, uint8(r[0])),
		aU32(aRateDLHigh, uint32(r[1]>>8)), aU8(aRateDLLow, uint8(r[1])))
}

func (v *VolIntent) attr(t uint16) Attr {
	ks := []Attr{aU8(aVolFlag, v.Flags)}
	if v.Flags&1 != 0 {
		ks = append(ks, aU64(aVolTotal, v.Tot))
	}
	if v.Flags&2 != 0 {
		ks = append(ks, aU64(aVolUL, v.UL))
	}
	if v.Flags&4 != 0 {
		ks = append(ks, aU64(aVolDL, v.DL))
	}
	return aNest(t, ks...)
}

// expectAttrs: the attributes (besides link / id / seid) of the ADD request.
// "wild" attribute types are ones the property does not pin a value for.
func (r *RuleIntent) expectAttrs(update bool) (attrs []Attr, wild map[uint16]bool) {
	wild = map[uint16]bool{}
	switch r.Kind {
	case "pdr":
		if r.Prec != nil {
			attrs = append(attrs, aU32(aPDRPrec, *r.Prec))
		}
		if !r.NoPDI {
			var pdi []Attr
			if r.SrcIf != nil {
				pdi = append(pdi, aU8(aPDISrcIf, *r.SrcIf))
			}
			if r.FTEID != nil {
				pdi = append(pdi, aNest(aPDIFTEID, aU32(aFTEIDTEID, *r.FTEID), aBytes(aFTEIDAddr, r.FTEIDIP[:])))
			}
			if r.UEIP != nil {
				pdi = append(pdi, aBytes(aPDIUEAddr, r.UEIP[:]))
			}
			uplink := r.SrcIf != nil && *r.SrcIf == 0
			for _, i := range orderOf(labelsOf(r.pdiKids()), "sdf", len(r.SDFs)) {
				pdi = append(pdi, r.SDFs[i].expectAttr(uplink))
			}
			if len(pdi) > 0 {
				attrs = append(attrs, aNest(aPDRPDI, pdi...))
			}
		}
		if r.OHR != nil {
			attrs = append(attrs, aU8(aPDROHR, *r.OHR))
		}
		if r.FARID != nil {
			attrs = append(attrs, aU32(aPDRFARID, *r.FARID))
		}
		labels := labelsOf(r.kids(update))
		for _, i := range orderOf(labels, "qer", len(r.QERIDs)) {
			attrs = append(attrs, aU32(aPDRQERID, r.QERIDs[i]))
		}
		for _, i := range orderOf(labels, "urr", len(r.URRIDs)) {
			attrs = append(attrs, aU32(aPDRURRID, r.URRIDs[i]))
		}
		wild[aPDRUnix] = true
		wild[aPDRRole] = true
	case "far":
		if r.Action != nil {
			attrs = append(attrs, aU16(aFARAction, *r.Action))
		}
		if r.FP != nil {
			var fp []Attr
			if o := r.FP.OHC; o != nil {
				hc := []Attr{aU16(aOHCDesc, o.Desc)}
				if o.hasTEID() {
					hc = append(hc, aU32(aOHCTEID, o.TEID), aU16(aOHCPort, 2152))
				} else {
					hc = append(hc, aU16(aOHCPort, o.Port))
				}
				if o.hasIPv4() {
					hc = append(hc, aBytes(aOHCPeer, o.IP[:]))
				}
				fp = append(fp, aNest(aFPOHC, hc...))
			}
			if r.FP.Policy != nil {
				fp = append(fp, aStr(aFPPolicy, *r.FP.Policy))
			}
			if r.FP.SMReq != nil {
				fp = append(fp, aU8(aFPPFCPSM, *r.FP.SMReq))
			}
			attrs = append(attrs, aNest(aFARFP, fp...))
		}
		if r.BARID != nil {
			attrs = append(attrs, aU8(aFARBARID, *r.BARID))
		}
	case "qer":
		if r.CorrID != nil {
			attrs = append(attrs, aU32(aQERCorr, *r.CorrID))
		}
		if r.Gate != nil {
			attrs = append(attrs, aU8(aQERGate, *r.Gate))
		}
		if r.MBR != nil {
			attrs = append(attrs, rateAttr(aQERMBR, r.MBR))
		}
		if r.GBR != nil {
			attrs = append(attrs, rateAttr(aQERGBR, r.GBR))
		}
		if r.QFI != nil {
			attrs = append(attrs, aU8(aQERQFI, *r.QFI))
		}
		if r.RQI != nil {
			attrs = append(attrs, aU8(aQERRQI, *r.RQI))
		}
		if r.PPI != nil {
			attrs = append(attrs, aU8(aQERPPI, *r.PPI))
		}
	case "urr":
		if r.Method != nil {
			attrs = append(attrs, aU8(aURRMethod, *r.Method))
		}
		if r.Trigger != nil {
			t := *r.Trigger
			if r.TrigLen != 3 {
				t &= 0xffff
			}
			attrs = append(attrs, aU32(aURRTrigger, t))
		}
		if r.Period != nil {
			wild[aURRPeriod] = true // unit towards gtp5g is not pinned by the property
		}
		if r.MInfo != nil {
			attrs = append(attrs, aU64(aURRInfo, uint64(*r.MInfo)))
		}
		if r.VolTh != nil {
			if r.VolTh.Flags&7 == 0 {
				wild[aURRVolTh] = true // an IE that names no volume: nothing to hand over
			} else {
				attrs = append(attrs, r.VolTh.attr(aURRVolTh))
			}
		}
		if r.VolQu != nil {
			if r.VolQu.Flags&7 == 0 {
				wild[aURRVolQu] = true
			} else {
				attrs = append(attrs, r.VolQu.attr(aURRVolQu))
			}
		}
	case "bar":
		if r.Delay != nil {
			attrs = append(attrs, aU8(aBARDelay, *r.Delay))
		}
		if r.Count != nil {
			attrs = append(attrs, aU16(aBARCount, uint16(*r.Count)))
		}
	}
	return attrs, wild
}
