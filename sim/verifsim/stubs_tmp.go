//go:build verif

package verifsim

