//go:build verif

package verifsim

func (s *Sim) checkBuffers(ctx *StepCtx)     {}
func (s *Sim) checkPerio(ctx *StepCtx)       {}
