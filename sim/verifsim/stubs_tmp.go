//go:build verif

package verifsim

func (s *Sim) checkPerio(ctx *StepCtx)       {}
