//go:build verif

package verifsim

func (s *Sim) checkReports(ctx *StepCtx)     {}
func (s *Sim) checkBuffers(ctx *StepCtx)     {}
func (s *Sim) checkPerio(ctx *StepCtx)       {}
func (s *Sim) checkTranslation(ctx *StepCtx) {}
func (s *Sim) finalReports()                 {}
