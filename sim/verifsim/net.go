//go:build verif

package verifsim

// simnet: the UDP sockets go-upf listens on (N4 and GTP-U), as simhook.PacketBackend.

import (
	"fmt"
	"net"
	"net/netip"
	"sync"
	"syscall"
	"time"
)

type inPkt struct {
	b    []byte
	from net.Addr
}

// OutPkt is one datagram go-upf handed to a socket.
type OutPkt struct {
	N    int
	Step int
	At   time.Duration
	Dst  string
	B    []byte
	Err  bool // WriteTo was made to fail (datagram not sent)
}

type Sock struct {
	sim  *Sim
	name string

	in     chan inPkt
	closed chan struct{}
	once   sync.Once

	mu       sync.Mutex
	out      []*OutPkt
	failNext int

	route func(dst net.Addr, b []byte) // free-running mode: deliver to the addressed SMF actor
}

func newSock(s *Sim, name string) *Sock {
	return &Sock{sim: s, name: name, in: make(chan inPkt, 1<<16), closed: make(chan struct{})}
}

func (k *Sock) ReadFrom(p []byte) (int, net.Addr, error) {
	select {
	case <-k.closed:
		return 0, nil, net.ErrClosed
	default:
	}
	select {
	case pkt := <-k.in:
		n := copy(p, pkt.b)
		return n, pkt.from, nil
	case <-k.closed:
		return 0, nil, net.ErrClosed
	}
}

func (k *Sock) WriteTo(p []byte, addr net.Addr) (int, error) {
	select {
	case <-k.closed:
		return 0, net.ErrClosed
	default:
	}
	k.mu.Lock()
	o := &OutPkt{N: len(k.out), Step: k.sim.curStep(), At: k.sim.since(), Dst: addr.String(), B: append([]byte(nil), p...)}
	if k.failNext > 0 {
		k.failNext--
		o.Err = true
	}
	k.out = append(k.out, o)
	k.mu.Unlock()
	if o.Err {
		k.sim.fired(k.name+".senderr", 1)
		k.sim.logEvent("%s write-error dst=%s % x", k.name, o.Dst, o.B)
		return 0, syscall.ENOBUFS
	}
	k.sim.logEvent("%s out dst=%s % x", k.name, o.Dst, o.B)
	if k.route != nil {
		k.route(addr, p)
	}
	return len(p), nil
}

func (k *Sock) Close() error {
	k.once.Do(func() { close(k.closed) })
	return nil
}

func (k *Sock) isClosed() bool {
	select {
	case <-k.closed:
		return true
	default:
		return false
	}
}

// inject hands one datagram to go-upf's receiver.
func (k *Sock) inject(b []byte, from net.Addr) {
	if k.isClosed() {
		return
	}
	k.in <- inPkt{append([]byte(nil), b...), from}
}

// injectLossy never blocks: a full receive buffer drops the datagram.
func (k *Sock) injectLossy(b []byte, from net.Addr) {
	if k.isClosed() {
		return
	}
	select {
	case k.in <- inPkt{append([]byte(nil), b...), from}:
	default:
	}
}

// outSince returns the datagrams written at index >= from.
func (k *Sock) outSince(from int) []*OutPkt {
	k.mu.Lock()
	defer k.mu.Unlock()
	if from >= len(k.out) {
		return nil
	}
	return append([]*OutPkt(nil), k.out[from:]...)
}

func (k *Sock) outLen() int {
	k.mu.Lock()
	defer k.mu.Unlock()
	return len(k.out)
}

func udpAddr(s string) *net.UDPAddr {
	// literals only: the harness must never reach a real resolver
	ap, err := netip.ParseAddrPort(s)
	if err != nil {
		panic(fmt.Sprintf("harness: udpAddr(%q): %v", s, err))
	}
	return net.UDPAddrFromAddrPort(ap)
}
