//go:build verif

package verifsim

// Independent reader/writer of netlink attribute trees and of the gtp5g generic-netlink
// layout. Transcribed from the gtp5g netlink format as go-gtp5gnl documents it (that
// reading is the trusted base); shares no code with go-nl or go-gtp5gnl, so the code
// under test is never its own witness.

import (
	"encoding/binary"
	"fmt"
	"sort"
	"strings"
)

var le = binary.LittleEndian // the sandbox and every supported gtp5g host are little-endian

const (
	nlaFNested = 0x8000
	nlaFNBO    = 0x4000
	nlaMask    = 0x3fff

	nlmsgError = 2
	nlmsgDone  = 3

	nlmFRequest = 0x1
	nlmFAck     = 0x4
	nlmFReplace = 0x100
	nlmFExcl    = 0x200
	nlmFCreate  = 0x400

	genlIDCtrl       = 16
	ctrlCmdNewFamily = 1
	ctrlCmdGetFamily = 3

	ctrlAttrFamilyID    = 1
	ctrlAttrFamilyName  = 2
	ctrlAttrVersion     = 3
	ctrlAttrHdrSize     = 4
	ctrlAttrMaxAttr     = 5
	ctrlAttrMcastGroups = 7
	ctrlAttrMcastName   = 1
	ctrlAttrMcastID     = 2

	gtp5gFamilyID = 32
	gtp5gMcastGrp = 9
)

// gtp5g commands
const (
	cmdAddPDR = iota + 1
	cmdAddFAR
	cmdAddQER
	cmdDelPDR
	cmdDelFAR
	cmdDelQER
	cmdGetPDR
	cmdGetFAR
	cmdGetQER
	cmdAddURR
	cmdAddBAR
	cmdDelURR
	cmdDelBAR
	cmdGetURR
	cmdGetBAR
	cmdGetVersion
	cmdGetReport
	cmdBufferGTPU
	cmdGetMultiReports
	cmdGetUsageStatistic
)

// attribute numbers (per object kind the id attribute is 3)
const (
	aLink = 1

	aPDRID      = 3
	aPDRPrec    = 4
	aPDRPDI     = 5
	aPDROHR     = 6
	aPDRFARID   = 7
	aPDRRole    = 8
	aPDRUnix    = 9
	aPDRQERID   = 10
	aPDRSEID    = 11
	aPDRURRID   = 12
	aPDRPDNType = 13

	aPDIUEAddr = 1
	aPDIFTEID  = 2
	aPDISDF    = 3
	aPDISrcIf  = 4

	aFTEIDTEID = 1
	aFTEIDAddr = 2

	aSDFFD  = 1
	aSDFTTC = 2
	aSDFSPI = 3
	aSDFFL  = 4
	aSDFBID = 5

	aFDAction  = 1
	aFDDir     = 2
	aFDProto   = 3
	aFDSrcIP   = 4
	aFDSrcMask = 5
	aFDDstIP   = 6
	aFDDstMask = 7
	aFDSrcPort = 8
	aFDDstPort = 9

	aFARID      = 3
	aFARAction  = 4
	aFARFP      = 5
	aFARRelPDR  = 6
	aFARSEID    = 7
	aFARBARID   = 8
	aFPOHC      = 1
	aFPPolicy   = 2
	aFPPFCPSM   = 3
	aOHCDesc    = 1
	aOHCTEID    = 2
	aOHCPeer    = 3
	aOHCPort    = 4
	aQERID      = 3
	aQERGate    = 4
	aQERMBR     = 5
	aQERGBR     = 6
	aQERCorr    = 7
	aQERRQI     = 8
	aQERQFI     = 9
	aQERPPI     = 10
	aQERRelPDR  = 12
	aQERSEID    = 13
	aRateULHigh = 1
	aRateULLow  = 2
	aRateDLHigh = 3
	aRateDLLow  = 4

	aURRID      = 3
	aURRMethod  = 4
	aURRTrigger = 5
	aURRPeriod  = 6
	aURRInfo    = 7
	aURRSEID    = 8
	aURRVolTh   = 9
	aURRVolQu   = 10
	aURRMulti   = 11
	aURRNum     = 12
	aVolFlag    = 1
	aVolTotal   = 2
	aVolUL      = 3
	aVolDL      = 4

	aBARID    = 3
	aBARDelay = 4
	aBARCount = 5
	aBARSEID  = 6

	aUR          = 5
	aURURRID     = 3
	aURTrigger   = 4
	aURSeqn      = 5
	aURVolMeas   = 6
	aURQueryRef  = 7
	aURStart     = 8
	aUREnd       = 9
	aURSEID      = 10
	aVMFlags     = 1
	aVMTotal     = 2
	aVMUL        = 3
	aVMDL        = 4
	aVMTotalPkt  = 5
	aVMULPkt     = 6
	aVMDLPkt     = 7
	aBuffer      = 1
	aReport      = 2
	aBufferPkt   = 4
	aBufferID    = 5
	aBufferSEID  = 6
	aBufferActon = 7
)

// Attr is one node of a netlink attribute tree.
type Attr struct {
	Type   uint16 // masked type
	Nested bool   // NLA_F_NESTED was set
	Data   []byte // payload (for nested: the raw children)
	Kids   []Attr // children when Nested
}

func parseAttrs(b []byte) ([]Attr, error) {
	var out []Attr
	for len(b) > 0 {
		if len(b) < 4 {
			return nil, fmt.Errorf("attr: %d trailing bytes", len(b))
		}
		l := int(le.Uint16(b[0:2]))
		t := le.Uint16(b[2:4])
		if l < 4 || l > len(b) {
			return nil, fmt.Errorf("attr: bad length %d (have %d)", l, len(b))
		}
		a := Attr{Type: t & nlaMask, Nested: t&nlaFNested != 0, Data: append([]byte(nil), b[4:l]...)}
		if a.Nested {
			kids, err := parseAttrs(a.Data)
			if err != nil {
				return nil, fmt.Errorf("attr %d: %w", a.Type, err)
			}
			a.Kids = kids
		}
		out = append(out, a)
		al := (l + 3) &^ 3
		if al > len(b) {
			al = len(b)
		}
		b = b[al:]
	}
	return out, nil
}

func encodeAttrs(as []Attr) []byte {
	var out []byte
	for _, a := range as {
		data := a.Data
		if a.Nested {
			data = encodeAttrs(a.Kids)
		}
		l := 4 + len(data)
		hdr := make([]byte, 4)
		le.PutUint16(hdr[0:2], uint16(l))
		t := a.Type
		if a.Nested {
			t |= nlaFNested
		}
		le.PutUint16(hdr[2:4], t)
		out = append(out, hdr...)
		out = append(out, data...)
		for len(out)%4 != 0 {
			out = append(out, 0)
		}
	}
	return out
}

func aU8(t uint16, v uint8) Attr   { return Attr{Type: t, Data: []byte{v}} }
func aU16(t uint16, v uint16) Attr { b := make([]byte, 2); le.PutUint16(b, v); return Attr{Type: t, Data: b} }
func aU32(t uint16, v uint32) Attr { b := make([]byte, 4); le.PutUint32(b, v); return Attr{Type: t, Data: b} }
func aU64(t uint16, v uint64) Attr { b := make([]byte, 8); le.PutUint64(b, v); return Attr{Type: t, Data: b} }
func aBytes(t uint16, v []byte) Attr {
	return Attr{Type: t, Data: append([]byte(nil), v...)}
}
func aStr(t uint16, s string) Attr { return Attr{Type: t, Data: append([]byte(s), 0)} }
func aNest(t uint16, kids ...Attr) Attr {
	return Attr{Type: t, Nested: true, Kids: kids}
}

func findAttr(as []Attr, t uint16) (Attr, bool) {
	for _, a := range as {
		if a.Type == t {
			return a, true
		}
	}
	return Attr{}, false
}

func findAll(as []Attr, t uint16) []Attr {
	var out []Attr
	for _, a := range as {
		if a.Type == t {
			out = append(out, a)
		}
	}
	return out
}

func (a Attr) u64() uint64 {
	switch len(a.Data) {
	case 1:
		return uint64(a.Data[0])
	case 2:
		return uint64(le.Uint16(a.Data))
	case 4:
		return uint64(le.Uint32(a.Data))
	case 8:
		return le.Uint64(a.Data)
	}
	return 0
}

// String renders a tree canonically (used for comparison and for reports).
func (a Attr) String() string {
	if a.Nested {
		parts := make([]string, len(a.Kids))
		for i, k := range a.Kids {
			parts[i] = k.String()
		}
		return fmt.Sprintf("%d{%s}", a.Type, strings.Join(parts, " "))
	}
	return fmt.Sprintf("%d=%x", a.Type, a.Data)
}

func attrsString(as []Attr) string {
	parts := make([]string, len(as))
	for i, a := range as {
		parts[i] = a.String()
	}
	return strings.Join(parts, " ")
}

// canonAttrs renders a list order-insensitively at every level EXCEPT that repeated
// attributes of the same type keep their relative order (several QER ids, SDF filters).
func canonAttrs(as []Attr) string {
	idx := make([]int, len(as))
	for i := range idx {
		idx[i] = i
	}
	sort.SliceStable(idx, func(i, j int) bool { return as[idx[i]].Type < as[idx[j]].Type })
	parts := make([]string, len(as))
	for i, j := range idx {
		a := as[j]
		if a.Nested {
			parts[i] = fmt.Sprintf("%d{%s}", a.Type, canonAttrs(a.Kids))
		} else {
			parts[i] = fmt.Sprintf("%d=%x", a.Type, a.Data)
		}
	}
	return strings.Join(parts, " ")
}

// nlmsg builds one netlink message.
func nlmsg(typ uint16, flags uint16, seq uint32, pid uint32, body []byte) []byte {
	b := make([]byte, 16+len(body))
	le.PutUint32(b[0:4], uint32(len(b)))
	le.PutUint16(b[4:6], typ)
	le.PutUint16(b[6:8], flags)
	le.PutUint32(b[8:12], seq)
	le.PutUint32(b[12:16], pid)
	copy(b[16:], body)
	for len(b)%4 != 0 {
		b = append(b, 0)
	}
	return b
}

func nlerr(seq, pid uint32, errno int, orig []byte) []byte {
	body := make([]byte, 4+16)
	le.PutUint32(body[0:4], uint32(int32(-errno)))
	if len(orig) >= 16 {
		copy(body[4:], orig[:16])
	}
	return nlmsg(nlmsgError, 0, seq, pid, body)
}

func genlBody(cmd uint8, ver uint8, attrs []Attr) []byte {
	b := []byte{cmd, ver, 0, 0}
	return append(b, encodeAttrs(attrs)...)
}
