//go:build verif

package pfcp

// Read-only accessors for the simulator's oracles (added through the build overlay,
// never part of the shipped tree). They are called by the simulator's root goroutine
// only while every go-upf goroutine is durably blocked (after synctest.Wait).

import "sort"

type VerifSess struct {
	LocalID  uint64
	RemoteID uint64
	NodeID   string
	NodeAddr string
	QLens    map[uint16]int
	URRSeq   map[uint32]uint32
	PDRs     []uint16
	FARs     []uint32
	QERs     []uint32
	URRs     []uint32
	BARs     []uint8
}

type VerifState struct {
	Sess    []VerifSess
	Nodes   map[string][]uint64 // node id -> local SEIDs
	Slots   int                 // length of the session table
	Free    []uint64
	TxLen   int
	RxLen   int
	TxSeq   uint32
	RcvQ    int
	ReportQ int
	TimerQ  int
}

func (s *PfcpServer) VerifSetTxSeq(v uint32) { s.txSeq = v }

func (s *PfcpServer) VerifState() VerifState {
	st := VerifState{
		Nodes:   map[string][]uint64{},
		Slots:   len(s.lnode.sess),
		Free:    append([]uint64(nil), s.lnode.free...),
		TxLen:   len(s.txTrans),
		RxLen:   len(s.rxTrans),
		TxSeq:   s.txSeq,
		RcvQ:    len(s.rcvCh),
		ReportQ: len(s.srCh),
		TimerQ:  len(s.trToCh),
	}
	for _, x := range s.lnode.sess {
		if x == nil {
			continue
		}
		v := VerifSess{LocalID: x.LocalID, RemoteID: x.RemoteID, QLens: map[uint16]int{}, URRSeq: map[uint32]uint32{}}
		if x.rnode != nil {
			v.NodeID = x.rnode.ID
			if x.rnode.addr != nil {
				v.NodeAddr = x.rnode.addr.String()
			}
		}
		for id, q := range x.q {
			v.QLens[id] = len(q)
		}
		for id, u := range x.URRIDs {
			v.URRSeq[id] = u.SEQN
			v.URRs = append(v.URRs, id)
		}
		for id := range x.PDRIDs {
			v.PDRs = append(v.PDRs, id)
		}
		for id := range x.FARIDs {
			v.FARs = append(v.FARs, id)
		}
		for id := range x.QERIDs {
			v.QERs = append(v.QERs, id)
		}
		for id := range x.BARIDs {
			v.BARs = append(v.BARs, id)
		}
		sort.Slice(v.PDRs, func(i, j int) bool { return v.PDRs[i] < v.PDRs[j] })
		sort.Slice(v.FARs, func(i, j int) bool { return v.FARs[i] < v.FARs[j] })
		sort.Slice(v.QERs, func(i, j int) bool { return v.QERs[i] < v.QERs[j] })
		sort.Slice(v.URRs, func(i, j int) bool { return v.URRs[i] < v.URRs[j] })
		sort.Slice(v.BARs, func(i, j int) bool { return v.BARs[i] < v.BARs[j] })
		st.Sess = append(st.Sess, v)
	}
	for id, n := range s.rnodes {
		var l []uint64
		for seid := range n.sess {
			l = append(l, seid)
		}
		sort.Slice(l, func(i, j int) bool { return l[i] < l[j] })
		st.Nodes[id] = l
	}
	return st
}
