//go:build verif

package pfcp
