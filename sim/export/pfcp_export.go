//go:build verif

package pfcp

// Read-only accessors for the simulator's oracles (added through the build overlay,
// never part of the shipped tree). They are called by the simulator's root goroutine
// only while every go-upf goroutine is durably blocked (after synctest.Wait).

import (
	"reflect"
	"sort"
)

// sizeOf: the number of entries of a session's rule-id set, whatever container go-upf keeps
// it in today (a map, a slice, or a type with a Len method). The accessors must not make
// the check unbuildable when a container is refactored: -1 = shape unknown (only the
// coverage hash uses these numbers).
func sizeOf(v any) int {
	rv := reflect.ValueOf(v)
	switch rv.Kind() {
	case reflect.Map, reflect.Slice, reflect.Array, reflect.Chan:
		return rv.Len()
	}
	if m := rv.MethodByName("Len"); m.IsValid() && m.Type().NumIn() == 0 && m.Type().NumOut() == 1 {
		if out := m.Call(nil); out[0].CanInt() {
			return int(out[0].Int())
		}
	}
	return -1
}

type VerifSess struct {
	LocalID  uint64
	RemoteID uint64
	NodeID   string
	NodeAddr string
	QLens    map[uint16]int
	URRSeq   map[uint32]uint32
	PDRs     int
	FARs     int
	QERs     int
	URRs     []uint32
	BARs     int
}

type VerifState struct {
	Sess    []VerifSess
	Nodes   map[string][]uint64 // node id -> local SEIDs
	Slots   int                 // length of the session table
	Free    []uint64
	TxLen   int
	RxLen   int
	TxSeq   uint32
	RcvQ    int
	ReportQ int
	TimerQ  int
}

func (s *PfcpServer) VerifSetTxSeq(v uint32) { s.txSeq = v }

func (s *PfcpServer) VerifState() VerifState {
	st := VerifState{
		Nodes:   map[string][]uint64{},
		Slots:   len(s.lnode.sess),
		Free:    append([]uint64(nil), s.lnode.free...),
		TxLen:   len(s.txTrans),
		RxLen:   len(s.rxTrans),
		TxSeq:   s.txSeq,
		RcvQ:    len(s.rcvCh),
		ReportQ: len(s.srCh),
		TimerQ:  len(s.trToCh),
	}
	for _, x := range s.lnode.sess {
		if x == nil {
			continue
		}
		v := VerifSess{LocalID: x.LocalID, RemoteID: x.RemoteID, QLens: map[uint16]int{}, URRSeq: map[uint32]uint32{}}
		if x.rnode != nil {
			v.NodeID = x.rnode.ID
			if x.rnode.addr != nil {
				v.NodeAddr = x.rnode.addr.String()
			}
		}
		for id, q := range x.q {
			v.QLens[id] = len(q)
		}
		for id, u := range x.URRIDs {
			v.URRSeq[id] = u.SEQN
			v.URRs = append(v.URRs, id)
		}
		v.PDRs, v.FARs, v.QERs, v.BARs = sizeOf(x.PDRIDs), sizeOf(x.FARIDs), sizeOf(x.QERIDs), sizeOf(x.BARIDs)
		sort.Slice(v.URRs, func(i, j int) bool { return v.URRs[i] < v.URRs[j] })
		st.Sess = append(st.Sess, v)
	}
	for id, n := range s.rnodes {
		var l []uint64
		for seid := range n.sess {
			l = append(l, seid)
		}
		sort.Slice(l, func(i, j int) bool { return l[i] < l[j] })
		st.Nodes[id] = l
	}
	return st
}
