//go:build verif

package forwarder
