//go:build verif

package forwarder

import (
	nl "github.com/khirono/go-nl"

	"github.com/free5gc/go-upf/internal/forwarder/perio"
)

func (g *Gtp5g) VerifPerio() *perio.Server { return g.ps }
func (g *Gtp5g) VerifMux() *nl.Mux         { return g.mux }
