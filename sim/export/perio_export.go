//go:build verif

package perio
