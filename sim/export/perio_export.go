//go:build verif

package perio

import "time"

// VerifGroups: period -> number of registered (session, URR) pairs. Racy by nature
// (the table belongs to the perio goroutine); the simulator calls it at quiescence.
func (s *Server) VerifGroups() map[time.Duration]int {
	out := map[time.Duration]int{}
	for p, g := range s.perioList {
		n := 0
		for _, u := range g.urrids {
			n += len(u)
		}
		out[p] = n
	}
	return out
}

func (s *Server) VerifQueueLen() int { return len(s.evtCh) }
