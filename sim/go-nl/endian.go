package nl

import (
	"encoding/binary"
	"unsafe"
)

var native binary.ByteOrder = NativeEndian()

func NativeEndian() binary.ByteOrder {
	var x uint32 = 0x01020304
	if *(*byte)(unsafe.Pointer(&x)) == 0x01 {
		return binary.BigEndian
	} else {
		return binary.LittleEndian
	}
}
