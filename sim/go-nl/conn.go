package nl

// Simulation replacement of go-nl's conn.go (see /verif/DESIGN.md §1.2).
// A Conn is no longer a netlink socket but an endpoint attached to a SimKernel
// the simulator installs with SetSimKernel. Everything else in this module
// (attr.go, msg.go, request.go, client.go, encoder.go, endian.go) is the
// unmodified v1.0.5 source.

import (
	"errors"
	"sync"
	"syscall"
	"unsafe"
)

type Conner interface {
	Fd() int
	Close()
	Read([]byte) (int, error)
	Write([]byte) (int, error)
	Writev([]syscall.Iovec) (int, error)
	TakeSeq() int
}

// SimKernel is the other end of every simulated netlink socket.
type SimKernel interface {
	// Open registers a new socket and returns its (fake) descriptor number.
	Open(c *Conn, proto int, groups []int) (int, error)
	// Send receives one complete datagram written by the process.
	Send(c *Conn, b []byte) error
	Close(c *Conn)
	IfnameToIndex(name string) (int, error)
}

var (
	kernelMu sync.Mutex
	kernel   SimKernel
)

// SetSimKernel installs the kernel all subsequently opened Conns talk to.
func SetSimKernel(k SimKernel) {
	kernelMu.Lock()
	kernel = k
	kernelMu.Unlock()
}

func simKernel() SimKernel {
	kernelMu.Lock()
	defer kernelMu.Unlock()
	return kernel
}

type Conn struct {
	fd     int
	seq    int
	Proto  int
	Groups []int
	k      SimKernel

	mu     sync.Mutex
	inbox  [][]byte
	mux    *Mux
	closed bool
}

func Open(proto int, groups ...int) (*Conn, error) {
	k := simKernel()
	if k == nil {
		return nil, errors.New("nl(sim): no kernel installed")
	}
	c := new(Conn)
	c.seq = 1
	c.Proto = proto
	c.Groups = append([]int(nil), groups...)
	c.k = k
	fd, err := k.Open(c, proto, groups)
	if err != nil {
		return nil, err
	}
	c.fd = fd
	return c, nil
}

func (c *Conn) Fd() int {
	return c.fd
}

func (c *Conn) Close() {
	c.mu.Lock()
	already := c.closed
	c.closed = true
	c.inbox = nil
	c.mu.Unlock()
	if !already {
		c.k.Close(c)
	}
}

// Closed reports whether Close was called (for the simulated kernel).
func (c *Conn) Closed() bool {
	c.mu.Lock()
	defer c.mu.Unlock()
	return c.closed
}

// Deliver is called by the simulated kernel: one datagram arrives on the socket.
// If a Mux watches the socket it will serve it, in arrival order across all sockets
// of that Mux; otherwise it waits in the socket buffer.
func (c *Conn) Deliver(b []byte) {
	c.mu.Lock()
	if c.closed {
		c.mu.Unlock()
		return
	}
	m := c.mux
	if m == nil {
		c.inbox = append(c.inbox, b)
		c.mu.Unlock()
		return
	}
	c.mu.Unlock()
	m.enqueue(c, b)
}

func (c *Conn) attach(m *Mux) {
	c.mu.Lock()
	c.mux = m
	pending := c.inbox
	c.inbox = nil
	c.mu.Unlock()
	for _, b := range pending {
		m.enqueue(c, b)
	}
}

func (c *Conn) detach() {
	c.mu.Lock()
	c.mux = nil
	c.mu.Unlock()
}

func (c *Conn) Read(b []byte) (int, error) {
	c.mu.Lock()
	defer c.mu.Unlock()
	if len(c.inbox) == 0 {
		return 0, syscall.EAGAIN
	}
	n := copy(b, c.inbox[0])
	c.inbox = c.inbox[1:]
	return n, nil
}

func (c *Conn) Write(b []byte) (int, error) {
	var iovs [1]syscall.Iovec
	iovs[0].Base = &b[0]
	iovs[0].Len = uint64(len(b))
	return c.Writev(iovs[:])
}

func (c *Conn) Writev(iovs []syscall.Iovec) (int, error) {
	var buf []byte
	for _, iov := range iovs {
		if iov.Len == 0 || iov.Base == nil {
			continue
		}
		buf = append(buf, unsafe.Slice(iov.Base, int(iov.Len))...)
	}
	c.mu.Lock()
	closed := c.closed
	c.mu.Unlock()
	if closed {
		return 0, syscall.EBADF
	}
	err := c.k.Send(c, buf)
	if err != nil {
		return 0, err
	}
	return len(buf), nil
}

func (c *Conn) TakeSeq() int {
	seq := c.seq
	c.seq++
	return seq
}
