package nl

import (
	"syscall"
)

type Msg struct {
	Header Header
	Body   []byte
}

func DecodeMsg(b []byte) (*Msg, int, error) {
	m := new(Msg)
	h, n, err := DecodeHeader(b)
	if err != nil {
		return nil, 0, err
	}
	m.Header = *h
	m.Body = b[n:m.Header.Len]
	return m, int(m.Header.Len), nil
}

func DecodeMsgError(b []byte) (error, int, error) {
	e := int32(native.Uint32(b[:4]))
	if e != 0 {
		return syscall.Errno(-e), 4, nil
	}
	return nil, 4, nil
}

type Header struct {
	Len   uint32
	Type  uint16
	Flags uint16
	Seq   uint32
	Pid   uint32
}

func DecodeHeader(b []byte) (*Header, int, error) {
	h := new(Header)
	h.Len = native.Uint32(b[0:4])
	h.Type = native.Uint16(b[4:6])
	h.Flags = native.Uint16(b[6:8])
	h.Seq = native.Uint32(b[8:12])
	h.Pid = native.Uint32(b[12:16])
	return h, 16, nil
}
