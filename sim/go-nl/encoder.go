package nl

type Encoder interface {
	Len() int
	Encode([]byte) (int, error)
}

type Encoders []Encoder

func (es Encoders) Len() int {
	n := 0
	for _, e := range es {
		n += e.Len()
	}
	return n
}

func (es Encoders) Encode(b []byte) (int, error) {
	off := 0
	for _, e := range es {
		n, err := e.Encode(b[off:])
		if err != nil {
			return off, err
		}
		off += n
	}
	return off, nil
}
