package nl

// Simulation replacement of go-nl's syscall.go: no system call is made.

import (
	"errors"
	"syscall"
)

func Sendmsg(s int, msg *syscall.Msghdr, flags int) (n int, err error) {
	return 0, syscall.ENOSYS
}

func Recvmsg(s int, msg *syscall.Msghdr, flags int) (n int, err error) {
	return 0, syscall.ENOSYS
}

type Ifreq struct {
	Name  [syscall.IFNAMSIZ]byte
	Index uint32
}

func IfnameToIndex(name string) (i int, err error) {
	k := simKernel()
	if k == nil {
		return 0, errors.New("nl(sim): no kernel installed")
	}
	return k.IfnameToIndex(name)
}
