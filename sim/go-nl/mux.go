package nl

// Simulation replacement of go-nl's mux.go: the epoll loop becomes a queue-fed loop.
// What is kept from the original, because the properties depend on it:
//   - ONE goroutine (Serve) delivers both replies and multicasts, one datagram at a
//     time, and runs the handlers synchronously (a handler that blocks stalls all
//     netlink delivery);
//   - handler stacks per socket with PushHandler / PopHandler semantics unchanged;
//   - a datagram for a socket nobody handles any more is discarded.

import (
	"sync"
)

type muxItem struct {
	c *Conn
	b []byte
}

type Mux struct {
	es map[int]muxEntry
	mu sync.Mutex

	qmu  sync.Mutex
	q    []muxItem
	wake chan struct{}
	done chan struct{}
	once sync.Once
}

func NewMux() (*Mux, error) {
	m := new(Mux)
	m.es = make(map[int]muxEntry)
	m.wake = make(chan struct{}, 1)
	m.done = make(chan struct{})
	return m, nil
}

// AfterCloseYield, when set by the simulator, runs after Close has told the serving
// goroutine to stop: the real Close returns without waiting for it, so whether the caller
// or that goroutine runs first is a scheduling choice, and this is where the simulator
// makes it.
var AfterCloseYield func()

func (m *Mux) Close() {
	first := false
	m.once.Do(func() { close(m.done); first = true })
	if first && AfterCloseYield != nil {
		AfterCloseYield()
	}
}

func (m *Mux) enqueue(c *Conn, b []byte) {
	m.qmu.Lock()
	m.q = append(m.q, muxItem{c, b})
	m.qmu.Unlock()
	select {
	case m.wake <- struct{}{}:
	default:
	}
}

// QueueLen is the number of datagrams waiting to be served (simulator probe).
func (m *Mux) QueueLen() int {
	m.qmu.Lock()
	defer m.qmu.Unlock()
	return len(m.q)
}

func (m *Mux) PushHandler(conn Conner, handler Handler) error {
	fd := conn.Fd()
	m.mu.Lock()
	e, ok := m.es[fd]
	if ok {
		e.handlers = append([]Handler{handler}, e.handlers...)
		m.es[fd] = e
		m.mu.Unlock()
		return nil
	}
	buf := make([]byte, 0)
	m.es[fd] = muxEntry{conn, buf, HandlerStack{handler}}
	m.mu.Unlock()
	if c, ok := conn.(*Conn); ok {
		c.attach(m)
	}
	return nil
}

func (m *Mux) PushHandlerFunc(conn Conner, f func(msg *Msg) bool) error {
	return m.PushHandler(conn, HandlerFunc(f))
}

func (m *Mux) PopHandler(conn Conner) {
	fd := conn.Fd()
	m.mu.Lock()
	defer m.mu.Unlock()
	e, ok := m.es[fd]
	if !ok {
		return
	}
	n := len(e.handlers)
	if n <= 1 {
		if c, ok := conn.(*Conn); ok {
			c.detach()
		}
		delete(m.es, fd)
		return
	}
	e.handlers = append([]Handler{}, e.handlers[1:]...)
	m.es[fd] = e
}

func (m *Mux) Serve() error {
	for {
		select {
		case <-m.done:
			return nil
		case <-m.wake:
		}
		for {
			select {
			case <-m.done:
				return nil
			default:
			}
			m.qmu.Lock()
			if len(m.q) == 0 {
				m.qmu.Unlock()
				break
			}
			it := m.q[0]
			m.q = m.q[1:]
			m.qmu.Unlock()

			m.mu.Lock()
			e, ok := m.es[it.c.Fd()]
			m.mu.Unlock()
			if !ok {
				continue
			}
			e.Serve(it.b)
		}
	}
}

type muxEntry struct {
	conn     Conner
	buf      []byte
	handlers HandlerStack
}

func (e muxEntry) Serve(b []byte) error {
	off := 0
	for off < len(b) {
		msg, n, err := DecodeMsg(b[off:])
		if err != nil {
			return err
		}
		e.handlers.ServeMsg(msg)
		off += n
	}
	return nil
}

type Handler interface {
	ServeMsg(*Msg) bool
}

type HandlerFunc func(*Msg) bool

func (f HandlerFunc) ServeMsg(msg *Msg) bool {
	return f(msg)
}

type HandlerStack []Handler

func (hs HandlerStack) ServeMsg(msg *Msg) bool {
	for _, h := range hs {
		if h.ServeMsg(msg) {
			return true
		}
	}
	return false
}
