module github.com/khirono/go-nl

go 1.21
