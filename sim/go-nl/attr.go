package nl

import (
	"bytes"
	"io"
	"syscall"
)

const (
	NLA_TYPE_MASK = ^uint16(syscall.NLA_F_NESTED | syscall.NLA_F_NET_BYTEORDER)
)

type AttrLen uint16

func (l AttrLen) Align() int {
	return (int(l) + 3) &^ 3
}

type AttrHdr struct {
	Len  AttrLen
	Type uint16
}

func DecodeAttrHdr(b []byte) (AttrHdr, int, error) {
	var hdr AttrHdr
	if len(b) < 4 {
		return hdr, 0, io.ErrUnexpectedEOF
	}
	hdr.Len = AttrLen(native.Uint16(b[0:2]))
	hdr.Type = native.Uint16(b[2:4])
	return hdr, 4, nil
}

func (h AttrHdr) MaskedType() int {
	return int(h.Type & NLA_TYPE_MASK)
}

func (h AttrHdr) Nested() bool {
	return h.Type&syscall.NLA_F_NESTED != 0
}

func (h AttrHdr) NetByteorder() bool {
	return h.Type&syscall.NLA_F_NET_BYTEORDER != 0
}

type Attr struct {
	Type   uint16
	length AttrLen
	Value  Encoder
}

func (a *Attr) Len() int {
	if a.length == 0 {
		a.length = AttrLen(4)
		if a.Value != nil {
			a.length += AttrLen(a.Value.Len())
		}
	}
	return a.length.Align()
}

func (a *Attr) Encode(b []byte) (int, error) {
	n := a.Len()
	if len(b) < n {
		return 0, io.ErrShortWrite
	}
	native.PutUint16(b[0:2], uint16(a.length))
	typ := a.Type
	if a.Nested() {
		typ |= syscall.NLA_F_NESTED
	}
	native.PutUint16(b[2:4], typ)
	if a.Value != nil {
		a.Value.Encode(b[4:a.length])
	}
	return n, nil
}

func (a *Attr) Nested() bool {
	if a.Value == nil {
		return false
	}
	_, ok := a.Value.(AttrList)
	return ok
}

type AttrList []Attr

func (al AttrList) Len() int {
	n := 0
	for _, a := range al {
		n += a.Len()
	}
	return n
}

func (al AttrList) Encode(b []byte) (int, error) {
	off := 0
	for _, a := range al {
		n, err := a.Encode(b[off:])
		if err != nil {
			return off, err
		}
		off += n
	}
	return off, nil
}

type AttrU64 uint64

func DecodeAttrU64(b []byte) (uint64, int, error) {
	if len(b) < 8 {
		return 0, 0, io.ErrUnexpectedEOF
	}
	u := native.Uint64(b)
	return u, 8, nil
}

func (u AttrU64) Len() int {
	return 8
}

func (u AttrU64) Encode(b []byte) (int, error) {
	native.PutUint64(b, uint64(u))
	return 8, nil
}

type AttrU32 uint32

func DecodeAttrU32(b []byte) (uint32, int, error) {
	if len(b) < 4 {
		return 0, 0, io.ErrUnexpectedEOF
	}
	u := native.Uint32(b)
	return u, 4, nil
}

func (u AttrU32) Len() int {
	return 4
}

func (u AttrU32) Encode(b []byte) (int, error) {
	native.PutUint32(b, uint32(u))
	return 4, nil
}

type AttrU16 uint16

func DecodeAttrU16(b []byte) (uint16, int, error) {
	if len(b) < 2 {
		return 0, 0, io.ErrUnexpectedEOF
	}
	u := native.Uint16(b)
	return u, 2, nil
}

func (u AttrU16) Len() int {
	return 2
}

func (u AttrU16) Encode(b []byte) (int, error) {
	native.PutUint16(b, uint16(u))
	return 2, nil
}

type AttrU8 uint8

func DecodeAttrU8(b []byte) (uint8, int, error) {
	if len(b) < 1 {
		return 0, 0, io.ErrUnexpectedEOF
	}
	u := uint8(b[0])
	return u, 1, nil
}

func (u AttrU8) Len() int {
	return 1
}

func (u AttrU8) Encode(b []byte) (int, error) {
	b[0] = byte(u)
	return 1, nil
}

type AttrBytes []byte

func DecodeAttrBytes(b []byte) ([]byte, int, error) {
	return b, len(b), nil
}

func (b AttrBytes) Len() int {
	return len(b)
}

func (b AttrBytes) Encode(p []byte) (int, error) {
	n := copy(p, b)
	return n, nil
}

type AttrString string

func DecodeAttrString(b []byte) (string, int, error) {
	i := bytes.IndexByte(b, 0)
	if i == -1 {
		s := string(b)
		return s, len(s), nil
	}
	s := string(b[:i])
	return s, i + 1, nil
}

func (s AttrString) Len() int {
	return len(s) + 1
}

func (s AttrString) Encode(b []byte) (int, error) {
	n := copy(b, s)
	return n + 1, nil
}
